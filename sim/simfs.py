"""In-memory file system behind builtins.open / io.open for paths under /simfs/.

Everything else passes through to the real open. Files are *created* (empty) the moment they
are opened for writing, and their content is committed when the stream is closed - so a
program that opens its output file and then fails leaves an (empty or partial) file behind,
exactly what the "no output file" clause of C19 is about. Every open is recorded.
"""
import builtins
import io
import locale
import os

ROOT = "/simfs/"


class _WriteBuf(io.BytesIO):
  def __init__(self, fs, path):
    super().__init__()
    self._fs = fs
    self._path = path

  def flush(self):
    super().flush()
    if not self.closed:
      self._fs.store[self._path] = self.getvalue()

  def close(self):
    if not self.closed:
      self._fs.store[self._path] = self.getvalue()
      self._fs.events.append(("close", self._path, len(self.getvalue())))
    super().close()


class SimFS:
  def __init__(self):
    self.store = {}
    self.events = []
    self._real_open = None
    self._real_io_open = None

  # -- seam
  def install(self):
    if self._real_open is not None:
      return self
    self._real_open = builtins.open
    self._real_io_open = io.open
    builtins.open = self._open
    io.open = self._open
    return self

  def uninstall(self):
    if self._real_open is not None:
      builtins.open = self._real_open
      io.open = self._real_io_open
      self._real_open = None

  def _open(self, file, mode="r", buffering=-1, encoding=None, errors=None, newline=None, closefd=True, opener=None):
    try:
      path = os.fspath(file) if not isinstance(file, int) else None
    except TypeError:
      path = None
    if isinstance(path, bytes):
      path = path.decode("utf-8", "surrogateescape")
    if path is None or not path.startswith(ROOT):
      return self._real_open(file, mode, buffering, encoding, errors, newline, closefd, opener)
    binary = "b" in mode
    self.events.append(("open", path, mode))
    if "r" in mode and "+" not in mode:
      if path not in self.store:
        raise FileNotFoundError(2, "No such file or directory", path)
      raw = io.BytesIO(self.store[path])
    elif "w" in mode or "x" in mode:
      if "x" in mode and path in self.store:
        raise FileExistsError(17, "File exists", path)
      self.store[path] = b""  # created / truncated right now
      raw = _WriteBuf(self, path)
    elif "a" in mode:
      raw = _WriteBuf(self, path)
      raw.write(self.store.get(path, b""))
      self.store.setdefault(path, b"")
    else:
      raise ValueError("simfs: unsupported mode " + mode)
    if binary:
      return raw
    return io.TextIOWrapper(raw, encoding=encoding or locale.getencoding(), errors=errors, newline=newline, write_through=False)

  # -- test-side helpers (never used by the SUT)
  def put(self, path, data: bytes):
    self.store[path] = data

  def get(self, path):
    return self.store.get(path)

  def exists(self, path):
    return path in self.store

  def listing(self):
    return sorted(self.store)

  def reset(self):
    self.store.clear()
    del self.events[:]
