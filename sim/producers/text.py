"""Simulated authoring tools for the three line-oriented formats (SRT, WebVTT, SCC).
They are workload generators, not oracles: all they promise is files that are mostly valid and
structurally varied. Everything is derived from the rng passed in."""

WORDS = ["Hello", "world", "caption", "naïve", "été", "漢字", "line", "x", "-", "1", "&", "a<b", "--", "♪", "  two  spaces ", "\t"]
COLORS = ["red", "#ff0000", "#00ff0080", "blue", "white", "nocolor", "rgb(1,2,3)", "rgba(1,2,3,4)", "#12", ""]


def _text(rng, n=None):
  n = rng.randint(1, 4) if n is None else n
  return " ".join(rng.choice(WORDS) for _ in range(n))


def _ts(ms, sep, hours="auto", hdigits=2):
  h, r = divmod(ms, 3600000)
  mi, r = divmod(r, 60000)
  s, f = divmod(r, 1000)
  if hours == "never" and h == 0:
    return "%02d:%02d%s%03d" % (mi, s, sep, f)
  return "%0*d:%02d:%02d%s%03d" % (hdigits, h, mi, s, sep, f)


# ------------------------------------------------------------------------- SRT

SRT_TAGS = [("<b>", "</b>"), ("<i>", "</i>"), ("<u>", "</u>"), ("{b}", "{/b}"), ("{bold}", "{/bold}"), ("{italic}", "{/italic}"),
            ("{underline}", "{/underline}"), ("<bold>", "</bold>"), ("<B>", "</B>"), ("<x>", "</x>"), ("<font>", "</font>")]


def _srt_line(rng, depth=0):
  parts = []
  for _ in range(rng.randint(1, 3)):
    r = rng.random()
    if r < 0.45 or depth > 2:
      parts.append(_text(rng))
    elif r < 0.8:
      o, c = rng.choice(SRT_TAGS)
      parts.append(o + _srt_line(rng, depth + 1) + c)
    elif r < 0.92:
      parts.append('<font color="%s">%s</font>' % (rng.choice(COLORS[:5]), _text(rng)))
    elif r < 0.96:
      parts.append(rng.choice(["</b>", "</i>", "<b>", "</font>", "<", ">", "<font size=3>", "<br/>", "<!-- c -->", "<?p?>", "&amp;", "&#x41;"]))
    else:
      parts.append("")
  return rng.choice(["", " "]).join(parts)


def srt(rng):
  nl = rng.choice(["\n", "\n", "\r\n"])
  out = []
  if rng.random() < 0.1:
    out.append("﻿")
  t = rng.randint(0, 5000)
  n = rng.randint(0, 6) if rng.random() < 0.9 else rng.randint(7, 25)
  hd = rng.choice([2, 2, 3])
  for i in range(n):
    dur = rng.choice([0, 1, 40, 999, 1000, 2500, 60000, 3600000])
    gap = rng.choice([0, 0, 1, 500, 10000])
    b, e = t, t + dur
    t = e + gap
    counter = str(i + 1) if rng.random() < 0.95 else rng.choice(["", "x", "0", "-1", "1 2"])
    arrow = rng.choice([" --> ", " --> ", " -->  ", "\t-->\t", " -> "]) if rng.random() < 0.1 else " --> "
    out.append(counter + nl)
    out.append(_ts(b, ",", hdigits=hd) + arrow + _ts(e, ",", hdigits=hd) + rng.choice(["", "", " X1:0 X2:10"]) + nl)
    for _ in range(rng.choice([1, 1, 2, 3, 0])):
      out.append(_srt_line(rng) + nl)
    out.append(nl * rng.choice([1, 1, 2]))
  if rng.random() < 0.3 and out:
    out[-1] = out[-1].rstrip("\r\n")  # no final newline
  return "".join(out).encode("utf-8")


# ------------------------------------------------------------------------- VTT

VTT_SETTINGS = ["vertical:rl", "vertical:lr", "line:0", "line:-1", "line:50%", "line:50%,center", "line:5,end", "line:100%,start",
                "position:10%", "position:50%,center", "position:90%,line-right", "position:0%,line-left", "size:50%", "size:100%",
                "align:start", "align:center", "align:end", "align:left", "align:right", "region:fred", "align:middle", "line:x",
                "position:", "size:200%", "vertical:", ":", "a:b:c"]
VTT_TAGS = [("<b>", "</b>"), ("<i>", "</i>"), ("<u>", "</u>"), ("<c.red>", "</c>"), ("<c.bg_blue.yellow>", "</c>"), ("<c>", "</c>"),
            ("<v Fred>", "</v>"), ("<v.loud Mary Jane>", "</v>"), ("<lang en>", "</lang>"), ("<lang>", "</lang>"), ("<x>", "</x>"),
            ("<c.nocolor>", "</c>"), ("<b.cls title>", "</b>"), ("<v Tom &amp; Jerry>", "</v>"), ("<v A&bogus;B>", "</v>"), ("<v R&amp>", "</v>"),
            ("<c.red\tnote>", "</c>"), ("<c.white.bg_black\x0cx>", "</c>"), ("<i.>", "</i>"), ("<c..red>", "</c>"), ("<v  >", "</v>"), ("<lang fr-CA>", "</lang>")]


def _vtt_text(rng, begin_ms, end_ms, depth=0, in_ruby=False):
  parts = []
  for _ in range(rng.randint(1, 3)):
    r = rng.random()
    if r < 0.4 or depth > 2:
      parts.append(_text(rng).replace("<", "&lt;").replace("&", "&amp;") if rng.random() < 0.8 else _text(rng))
    elif r < 0.7:
      o, c = rng.choice(VTT_TAGS)
      parts.append(o + _vtt_text(rng, begin_ms, end_ms, depth + 1, in_ruby) + c)
    elif r < 0.8 and not in_ruby:
      rt = rng.choice(["<rt>%s</rt>" % _text(rng, 1), "<rt>%s" % _text(rng, 1), "", "<rt></rt>", "<rt>a</rt><rt>b</rt>"])
      parts.append("<ruby>%s%s</ruby>" % (_text(rng, 1), rt) if rng.random() < 0.85 else "<ruby>%s%s" % (_text(rng, 1), rt))
    elif r < 0.88:
      ts = rng.choice([begin_ms, (begin_ms + end_ms) // 2, end_ms, max(0, begin_ms - 1000), end_ms + 1000])
      parts.append("<%s>" % _ts(ts, ".", hours=rng.choice(["auto", "never"])))
    elif r < 0.95:
      parts.append(rng.choice(["&amp;", "&lt;", "&gt;", "&nbsp;", "&lrm;", "&#65;", "&bogus;", "&", "&amp", "</b>", "</ruby>", "</rt>", "<rt>x</rt>", "<", "<>", "</>", "<1", "<b", "<c."]))
    else:
      parts.append("")
  return "".join(parts)


def vtt(rng):
  nl = rng.choice(["\n", "\n", "\r\n"])
  out = []
  if rng.random() < 0.1:
    out.append("﻿")
  out.append(rng.choice(["WEBVTT", "WEBVTT", "WEBVTT - title", "WEBVTT\tx", "webvtt", ""]) + nl)
  if rng.random() < 0.2:
    out.append("Kind: captions" + nl)
  out.append(nl)
  t = rng.randint(0, 4000)
  n = rng.randint(0, 6) if rng.random() < 0.9 else rng.randint(7, 20)
  for i in range(n):
    r = rng.random()
    if r < 0.08:
      out.append("NOTE " + _text(rng) + nl + (_text(rng) + nl if rng.random() < 0.5 else "") + nl)
    elif r < 0.14:
      out.append("STYLE" + nl + "::cue { color: red }" + nl + nl)
    elif r < 0.18:
      out.append("REGION" + nl + "id:fred" + nl + "width:40%" + nl + "lines:3" + nl + nl)
    elif r < 0.2:
      out.append("NOTE" + nl + nl)
    dur = rng.choice([0, 1, 40, 999, 1000, 2500, 60000, 3600000])
    b, e = t, t + dur
    t = e + rng.choice([0, 0, 1, 500, 10000, -500])
    t = max(0, t)
    if rng.random() < 0.4:
      out.append(rng.choice([str(i + 1), "id-%d" % i, "cue " + _text(rng, 1)]) + nl)
    hours = rng.choice(["auto", "never"])
    settings = " ".join(rng.choice(VTT_SETTINGS) for _ in range(rng.choice([0, 0, 1, 2, 4])))
    out.append(_ts(b, ".", hours) + " --> " + _ts(e, ".", hours) + (" " + settings if settings else "") + nl)
    for _ in range(rng.choice([1, 1, 2, 3, 0])):
      out.append(_vtt_text(rng, b, e) + nl)
    out.append(nl * rng.choice([1, 1, 2]))
  if rng.random() < 0.3 and out:
    out[-1] = out[-1].rstrip("\r\n")
  return "".join(out).encode("utf-8")


# ------------------------------------------------------------------------- SCC (simple; the full encoder lives in producers/scc608.py)

def _parity(b):
  return b | 0x80 if bin(b).count("1") % 2 == 0 else b


def _w(b1, b2, parity=True):
  if parity:
    b1, b2 = _parity(b1), _parity(b2)
  return "%02x%02x" % (b1, b2)


def _scc_text_words(text):
  bs = [ord(c) for c in text if 0x20 <= ord(c) < 0x7f]
  if len(bs) % 2:
    bs.append(0)
  return [_w(bs[i], bs[i + 1]) for i in range(0, len(bs), 2)]


def _scc_odd_words(rng):
  """legal 16-bit words in orders that no captioning protocol prescribes"""
  pool = ["91ae", "9120", "9723", "97a1", "94a1", "942d", "942f", "942c", "94ae", "9429", "9420", "9425", "1520", "152f", "1d2c",
          "9137", "9220", "1330", "102e", "97ad", "172e", "9440", "13e0", "1040", "c1c2", "2080", "0000", "7f7f", "94a4", "9428", "942b", "1f2f"]
  return [rng.choice(pool) for _ in range(rng.randint(1, 8))]


def scc_simple(rng):
  out = ["Scenarist_SCC V1.0", ""]
  frames = rng.randint(0, 3000)
  df = rng.random() < 0.3
  n = rng.randint(0, 6)
  single = rng.random() < 0.3  # this encoder sends every code once
  for _ in range(n):
    style = rng.choice(["pop", "roll", "paint", "odd"])
    words = []
    if style == "odd":
      words = _scc_odd_words(rng)
      if rng.random() < 0.15:
        words = []
    if style == "pop":
      words += ["9420", "9420"]
      if rng.random() < 0.5:
        words += ["94ae", "94ae"]
      for _r in range(rng.randint(1, 3)):
        pac = _w(rng.choice([0x11, 0x12, 0x15, 0x16, 0x17, 0x10, 0x13, 0x14]), rng.choice(list(range(0x40, 0x60)) + list(range(0x60, 0x80))))
        words += [pac, pac]
        if rng.random() < 0.3:
          mr = _w(0x11, rng.randint(0x20, 0x2f))
          words += [mr, mr]
        if rng.random() < 0.3:
          to = _w(0x17, rng.choice([0x21, 0x22, 0x23]))
          words += [to, to]
        words += _scc_text_words(_text(rng, 2))
        if rng.random() < 0.2:
          sp = _w(0x11, rng.randint(0x30, 0x3f))
          words += [sp, sp]
        if rng.random() < 0.2:
          ex = _w(rng.choice([0x12, 0x13]), rng.randint(0x20, 0x3f))
          words += ["c1c1", ex, ex] if rng.random() < 0.5 else [ex]
      if rng.random() < 0.6:
        words += ["942c", "942c"]
      words += ["942f", "942f"]
    elif style == "roll":
      ru = rng.choice(["9425", "9426", "94a7"])
      words += [ru, ru, "94ad", "94ad"]
      pac = _w(0x14, rng.choice([0x70, 0x60, 0x72]))
      words += [pac, pac] + _scc_text_words(_text(rng, 3))
      if rng.random() < 0.3:
        words += ["94a1", "94a1"]
    else:
      words += ["9429", "9429"]
      pac = _w(rng.choice([0x11, 0x13, 0x14]), rng.choice([0x40, 0x50, 0x70]))
      words += [pac, pac] + _scc_text_words(_text(rng, 3))
    if single:
      dedup = []
      for w_ in words:
        if dedup and dedup[-1] == w_ and w_[0] in "19":
          continue
        dedup.append(w_)
      words = dedup
    if rng.random() < 0.25 and style != "odd":
      # a protocol violation in the middle of a well-formed caption
      words[rng.randrange(len(words) + 1):0] = _scc_odd_words(rng)[:3]
    if rng.random() < 0.2:
      words.insert(rng.randrange(len(words) + 1), "8080")
    if rng.random() < 0.15:
      words += ["1c20", "1c20", _w(0x1c, 0x50)] + _scc_text_words("ch2") + ["9420"]
    fps = 30
    h, r = divmod(frames, 3600 * fps)
    mi, r = divmod(r, 60 * fps)
    s, f = divmod(r, fps)
    if df and f < 2 and s == 0 and mi % 10 != 0:
      f = 2
    out.append("%02d:%02d:%02d%s%02d\t%s" % (h, mi, s, ";" if df else ":", f, " ".join(words)))
    out.append("")
    frames += len(words) + rng.choice([0, 5, 30, 300, 3000])
  nl = rng.choice(["\n", "\n", "\r\n"])
  return nl.join(out).encode("utf-8")
