"""Simulated EBU STL (Tech 3264) authoring tool: GSI block + TTI blocks."""
import struct


def _f(s, n):
  b = s.encode("ascii", "replace") if isinstance(s, str) else s
  return (b + b" " * n)[:n]


def gsi(rng, tnb, knobs=None):
  k = knobs or {}
  dfc = k.get("dfc") or rng.choice(["STL25.01", "STL25.01", "STL30.01", "STL24.01", "STL50.01", "STL23.01", "STLxx.01"])
  dsc = k.get("dsc") or rng.choice(["0", "1", "2", " ", "1"])
  cct = k.get("cct") or rng.choice(["00", "00", "01", "02", "03", "04", "05", "  "])
  lc = rng.choice(["09", "0F", "08", "7E", "2C", "zz", "00"])
  tcp = rng.choice(["00000000", "10000000", "00595924", "99999999", "        ", "0000000a"])
  mnr = rng.choice(["23", "11", "15", "02", "99", "  ", "xx"])
  parts = [
    _f("850", 3), _f(dfc, 8), _f(dsc, 1), _f(cct, 2), _f(lc, 2), _f("Programme", 32), _f("Episode", 32), _f("", 32), _f("", 32),
    _f("", 32), _f("", 32), _f("", 16), _f("200101", 6), _f("200101", 6), _f("01", 2),
    _f(rng.choice(["%05d" % tnb, "%05d" % tnb, "00000", "     ", "abcde", "99999"]), 5), _f("%05d" % tnb, 5), _f("001", 3),
    _f(rng.choice(["40", "38", "  "]), 2), _f(mnr, 2), _f("1", 1), _f(tcp, 8), _f("00000000", 8), _f("1", 1), _f("1", 1), _f("GBR", 3),
    _f("", 32), _f("", 32), _f("", 32), b" " * 75, _f("", 576),
  ]
  out = b"".join(parts)
  assert len(out) == 1024, len(out)
  return out


def _tf_text(rng, cct):
  out = bytearray()
  for _ in range(rng.randint(1, 4)):
    r = rng.random()
    if r < 0.12:
      out.append(rng.choice([0x00, 0x01, 0x02, 0x03, 0x04, 0x05, 0x06, 0x07]))  # alpha colours
    elif r < 0.2:
      out += bytes([0x0b, 0x0b])  # start box
    elif r < 0.26:
      out += bytes([0x0a, 0x0a])  # end box
    elif r < 0.3:
      out.append(rng.choice([0x0d, 0x0c]))  # double / normal height
    elif r < 0.34:
      out.append(rng.choice([0x1c, 0x1d]))  # black background / new background
    elif r < 0.4:
      out.append(rng.choice([0x80, 0x81, 0x82, 0x83, 0x84, 0x85]))
    elif r < 0.5:
      out.append(0x8a)  # newline
      if rng.random() < 0.5:
        out.append(0x8a)
    elif r < 0.56 and cct == "00":
      out += bytes([rng.choice([0xc1, 0xc2, 0xc3, 0xc8, 0xca, 0xcf]), rng.choice(b"aeiouAEn ")])
    elif r < 0.6:
      out.append(rng.choice([0xa4, 0xe0, 0xff, 0x9f, 0x7f, 0x10, 0x17, 0x86]))
    else:
      out += rng.choice([b"Hello", b"world", b"a", b" ", b"line two", b"1234567890"])
  return bytes(out)


def tti(sgn, sn, ebn, cs, tci, tco, vp, jc, cf, tf):
  tf = (tf + b"\x8f" * 112)[:112]
  return struct.pack("<BHBBBBBBBBBBBBB112s", sgn & 0xff, sn & 0xffff, ebn & 0xff, cs & 0xff, *tci, *tco, vp & 0xff, jc & 0xff, cf & 0xff, tf)


def _tc(frames, fps):
  h, r = divmod(frames, 3600 * fps)
  m, r = divmod(r, 60 * fps)
  s, f = divmod(r, fps)
  return (h % 256, m, s, f)


def stl(rng):
  cct = rng.choice(["00", "00", "00", "01", "02", "03", "04"])
  fps = 25
  blocks = []
  n = rng.randint(0, 6) if rng.random() < 0.9 else rng.randint(7, 30)
  t = rng.randint(0, 500)
  sn = rng.choice([0, 0, 1, 250, 65530])
  cumulative = 0
  for _ in range(n):
    dur = rng.choice([0, 1, 25, 50, 125, 1500])
    b, e = t, t + dur
    t = e + rng.choice([0, 0, 1, 25, 250])
    r = rng.random()
    if cumulative > 0:
      cs = 0x02 if cumulative > 1 else 0x03
      cumulative -= 1
    elif r < 0.12:
      cs = 0x01
      cumulative = rng.randint(1, 2)
    elif r < 0.17:
      cs = rng.choice([0x02, 0x03, 0x04, 0xff])  # out of sequence
    else:
      cs = 0x00
    vp = rng.choice([1, 2, 10, 11, 12, 20, 22, 23, 0, 24, 99])
    jc = rng.choice([0, 1, 2, 3, 4])
    cf = rng.choice([0, 0, 0, 1])
    tf = _tf_text(rng, cct)
    if rng.random() < 0.1:
      tf = b""
    if rng.random() < 0.15:
      # extension block chain
      first, second = tf[: len(tf) // 2], tf[len(tf) // 2:]
      blocks.append(tti(0, sn, rng.choice([0x00, 0x01]), cs, _tc(b, fps), _tc(e, fps), vp, jc, cf, first))
      blocks.append(tti(0, sn, 0xff, cs, _tc(b, fps), _tc(e, fps), vp, jc, cf, second))
    else:
      blocks.append(tti(rng.choice([0, 0, 0, 1]), sn, 0xff, cs, _tc(b, fps), _tc(e, fps), vp, jc, cf, tf))
    if rng.random() < 0.06:
      blocks.append(tti(0, sn, rng.choice([0xfe, 0xf0]), 0, (0, 0, 0, 0), (0, 0, 0, 0), 0, 0, 1, b"user data"))
    if rng.random() < 0.9:
      sn = (sn + 1) & 0xffff
  return gsi(rng, len(blocks), {"cct": cct}) + b"".join(blocks)
