"""Simulated TTML/IMSC authoring tool. Produces well-formed XML covering the element vocabulary,
timing syntaxes, referential/nested/inline styling, set, ruby, mixed content and unusual but
legal values; a small fraction of attribute values is syntactically wrong on purpose (the reader
documents that those are ignored)."""

NS = ('xmlns="http://www.w3.org/ns/ttml" xmlns:ttp="http://www.w3.org/ns/ttml#parameter" '
      'xmlns:tts="http://www.w3.org/ns/ttml#styling" xmlns:ittp="http://www.w3.org/ns/ttml/profile/imsc1#parameter" '
      'xmlns:itts="http://www.w3.org/ns/ttml/profile/imsc1#styling" xmlns:ebutts="urn:ebu:tt:style" '
      'xmlns:ttm="http://www.w3.org/ns/ttml#metadata"')

COLORS = ["red", "#ff0000", "#00ff0080", "transparent", "rgb(1,2,3)", "rgba(1,2,3,4)", "white", "#FFF", "nocolor", "#12345", ""]
LENGTHS = ["10%", "1c", "2em", "20px", "0.5c", "1rh", "2rw", "0px", "150%", "-1c", "1", "px", "1e3px", ".5em"]

STYLE_VALUES = {
  "tts:backgroundColor": COLORS, "tts:color": COLORS, "tts:direction": ["ltr", "rtl", "x"],
  "tts:disparity": LENGTHS, "tts:display": ["auto", "none", "x"], "tts:displayAlign": ["before", "center", "after", "justify"],
  "tts:extent": ["50% 50%", "100px 100px", "10c 5c", "1rw 1rh", "auto", "contain", "50%", "1em 1em", "-5% 10%"],
  "itts:fillLineGap": ["true", "false", "1"], "tts:fontFamily": ["Arial", "default", "monospaceSerif, 'Times New Roman'", '"A, B", sansSerif', "", ",", "a,,b"],
  "tts:fontSize": ["100%", "1c", "2em", "20px", "1c 2c", "0%", "1rh"], "tts:fontStyle": ["normal", "italic", "oblique", "x"],
  "tts:fontWeight": ["normal", "bold", "900"], "tts:lineHeight": ["normal", "125%", "1c", "20px", "1.5em", "0"],
  "ebutts:linePadding": ["0.5c", "1c", "1px", "x"], "tts:luminanceGain": ["1.0", "2", "0", "-1", "x", "1e2"],
  "ebutts:multiRowAlign": ["start", "center", "end", "auto", "x"], "tts:opacity": ["1", "0", "0.5", "2", "-1", "x", "NaN", "INF", "1e400"],
  "tts:origin": ["10% 10%", "0px 0px", "1c 1c", "auto", "10%", "1em 1em", "1rw 1rh"], "tts:overflow": ["visible", "hidden", "x"],
  "tts:padding": ["1%", "1% 2%", "1% 2% 3%", "1% 2% 3% 4%", "1px", "1c 1c", "", "1% 2% 3% 4% 5%", "1em"],
  "tts:position": ["center", "left top", "10% 20%", "right 10% bottom 20%", "center left", "50%", "top", "left 10% top", "bottom right 5%", "x", "1px 1px 1px"],
  "tts:rubyAlign": ["center", "spaceAround", "x"], "tts:rubyPosition": ["before", "after", "outside", "x"],
  "tts:rubyReserve": ["none", "both", "outside 1em", "before 50%", "after", "x 1em", "both both"],
  "tts:shear": ["0%", "16.67%", "-50%", "100%", "200%", "x", "10"], "tts:showBackground": ["always", "whenActive", "x"],
  "tts:textAlign": ["start", "center", "end", "left", "right", "justify", "x"], "tts:textCombine": ["none", "all", "digits 2", "x"],
  "tts:textDecoration": ["none", "underline", "noUnderline lineThrough", "overline noOverline", "underline underline", "x"],
  "tts:textEmphasis": ["none", "auto", "filled circle", "open dot before", "sesame red after", "'x' outside", "filled", "circle circle", "x y z"],
  "tts:textOutline": ["none", "1px", "red 5%", "red 1px 2px", "5% red", "", "1px 1px 1px"],
  "tts:textShadow": ["none", "1px 1px", "1px 1px 2px", "1px 1px red", "1px 1px 2px red, -1px -1px blue", "1px", "1px 1px 1px 1px 1px", "red", "1px 1px,", ","],
  "tts:unicodeBidi": ["normal", "embed", "bidiOverride", "isolate"], "tts:visibility": ["visible", "hidden", "x"],
  "tts:wrapOption": ["wrap", "noWrap", "x"], "tts:writingMode": ["lrtb", "rltb", "tbrl", "tblr", "lr", "rl", "tb", "x"],
  "tts:ruby": ["container", "base", "text", "baseContainer", "textContainer", "delimiter", "none", "x"],
}
STYLE_NAMES = sorted(STYLE_VALUES)


# Per document, decided from the run's PRNG at the start of ttml(): a "careful authoring tool" writes only
# well-formed values and intervals that nest, so that the deep paths (style computation, animation, layout)
# are exercised with everything active; the other documents mix in unusual and wrong values.
_MODE = {"careful": False}


def _val(rng, n):
  vals = STYLE_VALUES[n]
  return rng.choice(vals[:max(2, len(vals) // 2)] if _MODE["careful"] else vals)


def esc(s):
  return s.replace("&", "&amp;").replace("<", "&lt;").replace('"', "&quot;")


def _time(rng, frames_ok=True, late=False):
  if _MODE["careful"]:
    return rng.choice(["4s", "5s", "7.5s", "10s", "00:00:08.000"] if late else ["0s", "1s", "2s", "3s", "00:00:01.500"])
  r = rng.random()
  if r < 0.3:
    return "%02d:%02d:%02d.%03d" % (0, rng.randint(0, 1), rng.randint(0, 59), rng.randint(0, 999))
  if r < 0.45:
    return rng.choice(["%gs" % rng.choice([0, 0.5, 1, 1.0001, 1.0002, 2, 10, 3600]), "%dms" % rng.choice([0, 1, 999, 1500]), "%dm" % rng.randint(0, 2), "0.001h"])
  if r < 0.6 and frames_ok:
    return rng.choice(["%df" % rng.randint(0, 300), "00:00:%02d:%02d" % (rng.randint(0, 59), rng.randint(0, 29)), "%dt" % rng.randint(0, 10**7), "00:00:01:00.5"])
  if r < 0.9:
    return "%ss" % rng.choice(["0", "1", "2", "3", "4", "5", "7.5", "10"])
  return rng.choice(["", "x", "1", "-1s", "00:00:60", "1:2:3", "99:99:99.999", "1e3s", "00:00:00:99", "1.s", "١s"])


def _timing(rng, p=0.6):
  out = []
  if rng.random() < p:
    out.append('begin="%s"' % _time(rng))
  if rng.random() < p:
    out.append('%s="%s"' % (rng.choice(["end", "end", "dur"]), _time(rng, late=True)))
  if rng.random() < (0.05 if not _MODE["careful"] else 0):
    out.append('timeContainer="%s"' % rng.choice(["par", "seq", "x"]))
  return out


def _styles(rng, k=None, allow_ruby=False):
  out = []
  k = rng.choice([0, 0, 1, 2, 4]) if k is None else k
  names = rng.sample(STYLE_NAMES, min(k, len(STYLE_NAMES)))
  for n in names:
    if n == "tts:ruby" and not allow_ruby:
      continue
    out.append('%s="%s"' % (n, esc(_val(rng, n))))
  return out


def _attrs(lst):
  seen, out = set(), []
  for a in lst:
    n = a.split("=", 1)[0]
    if n not in seen:  # an attribute name twice is not well-formed XML
      seen.add(n)
      out.append(a)
  return (" " + " ".join(out)) if out else ""


LAYOUT_STYLES = ["tts:origin", "tts:position", "tts:extent", "tts:padding", "tts:displayAlign", "tts:writingMode", "tts:showBackground",
                 "tts:overflow", "tts:opacity", "tts:backgroundColor", "tts:display", "tts:visibility", "tts:fontSize", "tts:lineHeight"]


GEOMETRY_STYLES = ["tts:origin", "tts:position", "tts:extent", "tts:padding", "tts:fontSize", "tts:lineHeight"]  # computed from one another


def _layout_styles(rng, k):
  names = rng.sample(GEOMETRY_STYLES, min(k, 2)) + rng.sample(LAYOUT_STYLES, k)
  return ['%s="%s"' % (n, esc(_val(rng, n))) for n in names]


def _set(rng, layout=False):
  n = rng.choice(STYLE_NAMES if not layout or rng.random() < 0.3 else GEOMETRY_STYLES if rng.random() < 0.6 else LAYOUT_STYLES)
  a = ['%s="%s"' % (n, esc(_val(rng, n)))] if n != "tts:ruby" else []
  if rng.random() < 0.1:
    a += _styles(rng, 1)
  return "<set%s/>" % _attrs(_timing(rng, 0.3 if layout and rng.random() < 0.5 else 0.8) + a)


TEXTS = ["Hello", " world ", "\n   ", "a  b", "漢字", "&amp;", "x\ty", "", " ", "Line one", "&#x2028;", "é"]


def _inline(rng, ctx, depth):
  """content of p/span"""
  out = []
  for _ in range(rng.randint(0, 3)):
    r = rng.random()
    if r < 0.4 or depth > 3:
      out.append(rng.choice(TEXTS))
    elif r < 0.5:
      out.append("<br%s/>" % _attrs(_styles(rng, rng.choice([0, 0, 1])) + (["xml:id=\"b%d\"" % rng.randint(0, 9)] if rng.random() < 0.1 else [])))
    elif r < 0.85:
      a = _timing(rng, 0.3) + _styles(rng) + _common(rng, ctx)
      inner = _inline(rng, ctx, depth + 1)
      if rng.random() < 0.15:
        inner = _set(rng) + inner
      if rng.random() < 0.05:
        inner = "<metadata><ttm:title>t</ttm:title></metadata>" + inner
      out.append("<span%s>%s</span>" % (_attrs(a), inner))
    else:
      out.append(_ruby(rng, ctx, depth + 1))
  return "".join(out)


def _ruby(rng, ctx, depth):
  def sp(role, inner, extra=None):
    a = ['tts:ruby="%s"' % role] + (extra or []) + _timing(rng, 0.15) + _styles(rng, rng.choice([0, 0, 1]))
    return "<span%s>%s</span>" % (_attrs(a), inner)
  t = lambda: rng.choice(["base", "ann", "", " ", "<span>x</span>", "a<br/>b"])  # noqa: E731
  pat = rng.choice(["bt", "bt", "bptp", "cc", "ccc", "b", "t", "tb", "bb", "bpt", "nested", "ct", "empty", "text-in-container"])
  if pat == "bt":
    inner = sp("base", t()) + sp("text", t())
  elif pat == "bptp":
    inner = sp("base", t()) + sp("delimiter", "(") + sp("text", t()) + sp("delimiter", ")")
  elif pat == "cc":
    inner = sp("baseContainer", sp("base", t()) * rng.randint(0, 2)) + sp("textContainer", sp("text", t()) * rng.randint(0, 2))
  elif pat == "ccc":
    inner = sp("baseContainer", sp("base", t())) + sp("textContainer", sp("text", t())) + sp("textContainer", sp("delimiter", "(") + sp("text", t()) + sp("delimiter", ")"))
  elif pat == "b":
    inner = sp("base", t())
  elif pat == "t":
    inner = sp("text", t())
  elif pat == "tb":
    inner = sp("text", t()) + sp("base", t())
  elif pat == "bb":
    inner = sp("base", t()) + sp("base", t())
  elif pat == "bpt":
    inner = sp("base", t()) + sp("delimiter", "(") + sp("text", t())
  elif pat == "nested":
    inner = sp("base", sp("container", sp("base", "x") + sp("text", "y"))) + sp("text", t())
  elif pat == "ct":
    inner = sp("baseContainer", sp("base", t())) + sp("text", t())
  elif pat == "text-in-container":
    inner = "stray" + sp("base", t()) + " " + sp("text", t())
  else:
    inner = ""
  if rng.random() < 0.3:
    inner = inner.replace("><", ">\n  <")
  return sp("container", inner)


def _common(rng, ctx):
  a = []
  if rng.random() < 0.15:
    a.append('xml:id="%s"' % rng.choice(["e1", "e2", "e3", "1bad", "", "r1"]))
  if rng.random() < 0.1:
    a.append('xml:lang="%s"' % rng.choice(["en", "fr-CA", "", "x"]))
  if rng.random() < 0.15:
    a.append('xml:space="%s"' % rng.choice(["preserve", "default", "x"]))
  if ctx["regions"] and rng.random() < 0.3:
    a.append('region="%s"' % rng.choice(ctx["regions"] + ["nope"]))
  if ctx["styles"] and rng.random() < 0.3:
    a.append('style="%s"' % " ".join(rng.choice(ctx["styles"] + ["nostyle"]) for _ in range(rng.randint(1, 2))))
  return a


def ttml(rng):
  ctx = {"regions": [], "styles": []}
  _MODE["careful"] = rng.random() < 0.4
  tt_attrs = [NS]
  if rng.random() < 0.7:
    tt_attrs.append('xml:lang="%s"' % rng.choice(["en", "", "fr"]))
  for name, vals in (("ttp:cellResolution", ["32 15", "40 24", "0 0", "x", "10"]), ("ttp:frameRate", ["25", "30", "24", "0", "x", "1000"]),
                     ("ttp:frameRateMultiplier", ["1000 1001", "1 1", "0 1", "1 0", "x", "1000", "1000 1001 1"]), ("ttp:tickRate", ["10000000", "1", "0", "x"]),
                     ("ttp:timeBase", ["media", "smpte", "clock"]), ("ittp:aspectRatio", ["16 9", "4 3", "0 1", "x", "16", "16 9 1"]),
                     ("ttp:displayAspectRatio", ["16 9", "1 0", "x"]), ("ittp:activeArea", ["10% 10% 80% 80%", "0% 0% 100% 100%", "110% 0% 1% 1%", "10% 10%", "x", "10px 10px 80px 80px", "10% 10% 80% 80% 1%", "-10% 10% 80% 80%"]),
                     ("tts:extent", ["1920px 1080px", "640px 480px", "auto", "50% 50%", "0px 0px", "x", "100px", "100px 100px 100px", "1e3px 1e3px", "1.5px 2px"]), ("ttp:profile", ["http://www.w3.org/ns/ttml/profile/imsc1/text"]),
                     ("xml:space", ["preserve", "default"]), ("ttp:dropMode", ["dropNTSC", "nonDrop"])):
    if rng.random() < 0.2:
      tt_attrs.append('%s="%s"' % (name, rng.choice(vals[:2] if _MODE["careful"] else vals)))
  head = []
  if rng.random() < 0.8:
    sty = []
    for i in range(rng.choice([0, 0, 1, 2, 4])):
      sid = "s%d" % i
      a = ['xml:id="%s"' % sid] + _styles(rng, rng.randint(0, 4))
      if ctx["styles"] and rng.random() < 0.4:
        a.append('style="%s"' % rng.choice(ctx["styles"] + [sid]))  # chained, maybe cyclic
      ctx["styles"].append(sid)
      sty.append("<style%s/>" % _attrs(a))
    for _ in range(rng.choice([0, 0, 0, 1, 2])):
      n = rng.choice(STYLE_NAMES)
      sty.append("<initial%s/>" % _attrs(['%s="%s"' % (n, esc(_val(rng, n)))]))
    lay = []
    for i in range(rng.choice([0, 1, 1, 2, 3])):
      rid = rng.choice(["r%d" % i, "r%d" % i, "r0"])
      if rng.random() < 0.6:
        a = ['xml:id="%s"' % rid] + _timing(rng, 0.2) + _styles(rng, rng.randint(0, 5))
      else:
        # what authoring tools mostly put on regions: placement and background
        a = ['xml:id="%s"' % rid] + _timing(rng, 0.1) + _layout_styles(rng, rng.randint(1, 3)) + _styles(rng, rng.choice([0, 0, 1]))
      if ctx["styles"] and rng.random() < 0.3:
        a.append('style="%s"' % rng.choice(ctx["styles"]))
      ctx["regions"].append(rid)
      inner = ""
      if rng.random() < 0.25:
        inner += "<style%s/>" % _attrs(_styles(rng, 2))  # nested styling
      if rng.random() < 0.3:
        inner += _set(rng, layout=True)
        if rng.random() < 0.3:
          inner += _set(rng, layout=True)
      lay.append("<region%s>%s</region>" % (_attrs(a), inner) if inner else "<region%s/>" % _attrs(a))
    head.append("<head>")
    if rng.random() < 0.1:
      head.append("<metadata><ttm:title>T</ttm:title><ttm:desc>d</ttm:desc></metadata>")
    if sty or rng.random() < 0.5:
      head.append("<styling>%s</styling>" % "".join(sty))
    if lay or rng.random() < 0.5:
      head.append("<layout>%s</layout>" % "".join(lay))
    head.append("</head>")
  body = []
  if rng.random() < 0.92:
    divs = []
    for _ in range(rng.choice([0, 1, 1, 2])):
      ps = []
      for _ in range(rng.choice([0, 1, 2, 3, 5])):
        a = _timing(rng, 0.8) + _styles(rng) + _common(rng, ctx)
        inner = _inline(rng, ctx, 0)
        if rng.random() < 0.12:
          inner = _set(rng) + inner
        ps.append("<p%s>%s</p>" % (_attrs(a), inner))
      if rng.random() < 0.15:
        ps.append("<div%s><p>%s</p></div>" % (_attrs(_timing(rng, 0.4) + _common(rng, ctx)), _inline(rng, ctx, 0)))
      if len(ctx["regions"]) > 1 and rng.random() < 0.25:
        # open-ended cues in different regions at the end of the programme
        t0 = rng.choice(["10s", "20s", "00:00:30.000"])
        for rid in rng.sample(ctx["regions"], 2):
          for _k in range(rng.choice([1, 2, 2])):
            end = rng.choice(["", "", ' end="40s"'])
            ps.append('<p begin="%s"%s region="%s">%s</p>' % (t0 if rng.random() < 0.7 else "25s", end, rid, rng.choice(["tail A", "tail <span>B</span>", "x<br/>y"])))
      sep = rng.choice(["", "\n  "])
      divs.append("<div%s>%s</div>" % (_attrs(_timing(rng, 0.3) + _styles(rng, rng.choice([0, 0, 1])) + _common(rng, ctx)), sep.join(ps)))
    a = _timing(rng, 0.2) + _styles(rng, rng.choice([0, 0, 1])) + _common(rng, ctx)
    body.append("<body%s>%s</body>" % (_attrs(a), "".join(divs)))
  decl = rng.choice(['<?xml version="1.0" encoding="UTF-8"?>\n', "", '<?xml version="1.0"?>'])
  root = rng.choice(["tt"] * 30 + ["ttx", "body"])
  doc = "%s<%s %s>%s%s</%s>" % (decl, root, " ".join(tt_attrs), "".join(head), "".join(body), root)
  return doc.encode("utf-8")
