"""Simulated CEA-608 caption encoder + line-21 channel for SCC files.

A *script* is a list of logical units (JSON-able lists):
  ["ctl", NAME]                      RCL ENM EDM EOC RDC RU2 RU3 RU4 CR BS TO1 TO2 TO3
  ["pac", row, kind, arg, underline] kind = "indent" (arg 0,4,..28) | "color" (arg 0..6) | "italic"
  ["mid", color_or_-1, underline]    -1 = italics, else colour index 0..6
  ["txt", "chars"]                   standard characters (written two per word)
  ["spc", n]                         special character 0..15 (0x11 0x30+n)
  ["ext", page, n, fallback]         extended character (page 0x12/0x13, n 0x20..0x3f) preceded by a standard fallback char
  ["gap", frames]                    idle time; forces a new SCC line
  ["cut"]                            start a new SCC line without idle time

`transmit(script, chan, start_frame, df)` places the units on a frame time line and applies the
channel configuration (doubling of codes, null padding, channel-2 bursts, parity, line length),
returning SCC text and the raw word list with frame numbers.
"""

COLORS = ["white", "green", "blue", "cyan", "red", "yellow", "magenta"]

CTL = {"RCL": 0x20, "BS": 0x21, "DER": 0x24, "RU2": 0x25, "RU3": 0x26, "RU4": 0x27, "RDC": 0x29, "EDM": 0x2c, "CR": 0x2d, "ENM": 0x2e, "EOC": 0x2f}
TAB = {"TO1": 0x21, "TO2": 0x22, "TO3": 0x23}

# row -> (byte1 low bits, second-byte base)
PAC_ROW = {1: (0x11, 0x40), 2: (0x11, 0x60), 3: (0x12, 0x40), 4: (0x12, 0x60), 5: (0x15, 0x40), 6: (0x15, 0x60), 7: (0x16, 0x40),
           8: (0x16, 0x60), 9: (0x17, 0x40), 10: (0x17, 0x60), 11: (0x10, 0x40), 12: (0x13, 0x40), 13: (0x13, 0x60), 14: (0x14, 0x40), 15: (0x14, 0x60)}

# standard character set: byte -> unicode where it differs from ASCII
STD_SPECIAL = {0x2a: "á", 0x5c: "é", 0x5e: "í", 0x5f: "ó", 0x60: "ú", 0x7b: "ç", 0x7c: "÷", 0x7d: "Ñ", 0x7e: "ñ", 0x7f: "█"}
STD_TO_BYTE = {}
for _b in range(0x20, 0x80):
  STD_TO_BYTE[STD_SPECIAL.get(_b, chr(_b))] = _b
STD_CHARS = "".join(sorted(c for c in STD_TO_BYTE if c != " "))

SPECIAL = ["®", "°", "½", "¿", "™", "¢", "£", "♪", "à", " ", "è", "â", "ê", "î", "ô", "û"]
# extended characters whose identity is not in doubt (page, code) -> char
EXT = {
  (0x12, 0x20): "Á", (0x12, 0x21): "É", (0x12, 0x22): "Ó", (0x12, 0x23): "Ú", (0x12, 0x24): "Ü", (0x12, 0x25): "ü", (0x12, 0x27): "¡",
  (0x12, 0x2b): "©", (0x12, 0x30): "À", (0x12, 0x31): "Â", (0x12, 0x32): "Ç", (0x12, 0x33): "È", (0x12, 0x34): "Ê", (0x12, 0x35): "Ë",
  (0x12, 0x36): "ë", (0x12, 0x37): "Î", (0x12, 0x38): "Ï", (0x12, 0x39): "ï", (0x12, 0x3a): "Ô", (0x12, 0x3b): "Ù", (0x12, 0x3c): "ù",
  (0x12, 0x3d): "Û", (0x12, 0x3e): "«", (0x12, 0x3f): "»",
  (0x13, 0x20): "Ã", (0x13, 0x21): "ã", (0x13, 0x22): "Í", (0x13, 0x23): "Ì", (0x13, 0x24): "ì", (0x13, 0x25): "Ò", (0x13, 0x26): "ò",
  (0x13, 0x27): "Õ", (0x13, 0x28): "õ", (0x13, 0x30): "Ä", (0x13, 0x31): "ä", (0x13, 0x32): "Ö", (0x13, 0x33): "ö", (0x13, 0x34): "ß",
  (0x13, 0x35): "¥", (0x13, 0x38): "Å", (0x13, 0x39): "å", (0x13, 0x3a): "Ø", (0x13, 0x3b): "ø",
}
EXT_KEYS = sorted(EXT)


def unit_words(u):
  """channel-1 words (7-bit byte pairs) of a logical unit; codes appear once here."""
  k = u[0]
  if k == "ctl":
    if u[1] in TAB:
      return [(0x17, TAB[u[1]])]
    return [(0x14, CTL[u[1]])]
  if k == "pac":
    _, row, kind, arg, ul = u
    b1, base = PAC_ROW[row]
    if kind == "indent":
      b2 = base + 0x10 + (arg // 4) * 2
    elif kind == "color":
      b2 = base + arg * 2
    else:
      b2 = base + 0x0e
    return [(b1, b2 + (1 if ul else 0))]
  if k == "mid":
    code = 0x2e if u[1] < 0 else 0x20 + u[1] * 2
    return [(0x11, code + (1 if u[2] else 0))]
  if k == "txt":
    bs = [STD_TO_BYTE[c] for c in u[1]]
    if len(bs) % 2:
      bs.append(0x00)
    return [(bs[i], bs[i + 1]) for i in range(0, len(bs), 2)]
  if k == "spc":
    return [(0x11, 0x30 + u[1])]
  if k == "ext":
    return [(STD_TO_BYTE[u[3]], 0x00), (u[1], u[2])]
  return []


def is_code_word(w):
  return 0x10 <= w[0] <= 0x1f


def parity(b, on=True):
  if not on:
    return b & 0x7f
  return (b | 0x80) if bin(b & 0x7f).count("1") % 2 == 0 else (b & 0x7f)


def frames_to_label(n, df):
  """frame count -> SMPTE label at 30 fps NDF (':') or 29.97 DF (';')."""
  if df:
    d, mm = divmod(n, 17982)
    if mm < 2:
      mm = 2  # never happens for labels produced by next_valid()
    n = n + 18 * d + 2 * ((mm - 2) // 1798)
  f = n % 30
  s = (n // 30) % 60
  mi = (n // 1800) % 60
  h = n // 108000
  return "%02d:%02d:%02d%s%02d" % (h, mi, s, ";" if df else ":", f)


def transmit(script, chan, start_frame, df):
  """Returns (scc_text, raw) where raw is a list of dicts, one per transmitted word:
  {"frame": absolute frame, "w": (b1, b2) without parity, "line": line no, "ch": 1|2, "unit": index or None}"""
  rng = chan["rng"]
  double = chan["double"]
  lines = []   # (label_frame, [hexwords])
  raw = []
  clock = start_frame
  cur = None
  last_logical = None

  def new_line():
    nonlocal cur
    cur = [clock, []]
    lines.append(cur)

  def emit(w, ch, unit):
    nonlocal clock
    if cur is None or len(cur[1]) >= chan["line_len"]:
      new_line()
    b1 = parity(w[0], rng.random() >= chan["parity_off"])
    b2 = parity(w[1], rng.random() >= chan["parity_off"])
    cur[1].append("%02x%02x" % (b1, b2))
    raw.append({"frame": clock, "w": (w[0] & 0x7f, w[1] & 0x7f), "line": len(lines) - 1, "ch": ch, "unit": unit})
    clock += 1

  for ui, u in enumerate(script):
    if u[0] == "gap":
      clock += u[1]
      cur = None
      last_logical = None
      continue
    if u[0] == "cut":
      cur = None
      continue
    words = unit_words(u)
    code_unit = bool(words) and is_code_word(words[-1]) and u[0] != "ext"
    # channel-2 burst only right before a channel-1 control code (the protocol resumes a channel with a code)
    if u[0] in ("ctl", "pac") and rng.random() < chan["ch2"]:
      if rng.random() < 0.7:
        # channel 2: RCL, PAC, text
        emit((0x1c, 0x20), 2, None)
        if double:
          emit((0x1c, 0x20), 2, None)
        emit((0x1c, 0x70), 2, None)
      else:
        # a control code of the second field (CC3 / CC4) followed by that channel's text
        fc = (rng.choice([0x15, 0x1d]), rng.choice([0x20, 0x25, 0x29, 0x2c, 0x2f]))
        emit(fc, 2, None)
        if double:
          emit(fc, 2, None)
      for c2 in ("no", "pe"):
        emit((ord(c2[0]), ord(c2[1])), 2, None)
      last_logical = None
    elif rng.random() < chan["null"]:
      for _ in range(rng.choice([1, 1, 2, 5])):
        emit((0x00, 0x00), 0, None)
    for w in words:
      if is_code_word(w):
        twice = double or (last_logical == w)
        if twice and cur is not None and len(cur[1]) >= chan["line_len"] - 1 and rng.random() >= chan.get("split", 0.0):
          cur = None  # keep both copies on one line (unless this channel splits pairs across contiguous lines)
        emit(w, 1, ui)
        if twice:
          emit(w, 1, ui)
        last_logical = w
      else:
        emit(w, 1, ui)
        last_logical = None
  out = ["Scenarist_SCC V1.0", ""]
  for label, ws in lines:
    if ws:
      out.append(frames_to_label(label, df) + "\t" + " ".join(ws))
      out.append("")
  return "\n".join(out), raw, [l for l in lines if l[1]]


# ------------------------------------------------------------------------- script generation

def _text(rng, n):
  words = ["HELLO", "world", "Caption", "test", "a", "I", "OK", "608", "don't", "x-y", "[music]", "Mr.", "Ñandú", "café", "ÉÁ"]
  out = ""
  while len(out) < n:
    w = rng.choice(words)
    w = "".join(c for c in w if c in STD_TO_BYTE)
    out += (" " if out else "") + w
  return out[:n].rstrip() or "a"


def gen_row_units(rng, row, budget, state):
  """Units that write one row: PAC, optional tab offset, then a mix of text / mid-row / special / extended / backspace.
  `state` tracks the colour in effect (the italics mid-row code keeps it, a colour mid-row code turns italics off)."""
  units = []
  r = rng.random()
  ul = rng.random() < 0.2
  col = 0
  if r < 0.5:
    ind = rng.choice([0, 0, 4, 8, 12, 16])
    units.append(["pac", row, "indent", ind, ul])
    col = ind
    state["color"] = 0
  elif r < 0.8:
    c = rng.randrange(7)
    units.append(["pac", row, "color", c, ul])
    state["color"] = c
  else:
    units.append(["pac", row, "italic", 0, ul])
    state["color"] = 0
  if rng.random() < 0.3:
    n = rng.choice([1, 2, 3])
    units.append(["ctl", "TO%d" % n])
    col += n
  avail = min(budget, 30 - col)
  pieces = rng.choice([1, 1, 2, 3])
  for pi in range(pieces):
    if avail < 3:
      break
    n = rng.randint(1, max(1, min(avail - 1, 12)))
    t = _text(rng, n)
    units.append(["txt", t])
    avail -= len(t)
    x = rng.random()
    if x < 0.2 and avail > 2:
      units.append(["spc", rng.choice([0, 1, 2, 3, 4, 5, 6, 7, 8, 10, 11, 12, 13, 14, 15])])
      avail -= 1
    elif x < 0.4 and avail > 2:
      key = rng.choice(EXT_KEYS)
      units.append(["ext", key[0], key[1], rng.choice("AEIOUaeiou?!c")])
      avail -= 1
    elif x < 0.5 and avail > 2:
      units.append(["ctl", "BS"])
      avail += 1
    if state.get("tomid") and pi + 1 < pieces and avail > 6 and rng.random() < state["tomid"]:
      # a tab offset after text: the cursor moves right, the cells in between stay blank
      n_ = rng.choice([1, 2, 3])
      units.append(["ctl", "TO%d" % n_])
      avail -= n_
    if pi + 1 < pieces and avail > 4 and rng.random() < 0.7:
      if rng.random() < 0.4:
        units.append(["mid", -1, rng.random() < 0.2])
      else:
        c = rng.randrange(7)
        units.append(["mid", c, rng.random() < 0.2])
        state["color"] = c
      avail -= 1
      if state.get("mid2") and avail > 4 and rng.random() < state["mid2"]:
        # a second mid-row code straight after the first: colour then italics (coloured italics), or italics then colour
        if units[-1][1] < 0:
          c = rng.randrange(7)
          units.append(["mid", c, rng.random() < 0.2])
          state["color"] = c
        else:
          units.append(["mid", -1, rng.random() < 0.2])
        avail -= 1
  return units


def _with_pauses(rng, units, p):
  """word-by-word delivery in the direct modes: idle time before a text piece, which then starts with a space"""
  out = []
  seen_txt = False
  for u in units:
    if u[0] == "txt" and seen_txt and out and out[-1][0] in ("txt", "spc", "ext") and rng.random() < p:
      out.append(["gap", rng.choice([20, 30, 60])])
      out.append(["txt", " " + u[1]])
    else:
      out.append(u)
    if u[0] == "txt":
      seen_txt = True
  return out


def gen_script(rng, knobs):
  """A sequence of captions in one or more of the three styles, with clean mode switches."""
  script = []
  ncap = knobs["captions"]
  style = rng.choice(knobs["styles"])
  first = True
  state = {"color": 0, "mid2": knobs.get("mid2", 0.3), "tomid": knobs.get("tomid", 0.2)}
  k = 0
  while k < ncap:
    if not first and rng.random() < knobs["switch"]:
      new_style = rng.choice(knobs["styles"])
      if new_style != style:
        if "roll" in (style, new_style) or rng.random() >= knobs.get("unclean", 0.0):
          # clean switch: erase both memories, let the screen rest
          script += [["gap", rng.choice([20, 40])], ["ctl", "EDM"], ["ctl", "ENM"], ["gap", rng.choice([20, 60])]]
        else:
          script += [["gap", rng.choice([20, 40])]]
        style = new_style
    first = False
    if style == "pop":
      n = rng.choice([1, 1, 2, 3])
      for _ in range(n):
        if k >= ncap:
          break
        script.append(["ctl", "RCL"])
        if rng.random() < knobs["enm"]:
          script.append(["ctl", "ENM"])
        rows = sorted(rng.sample(range(1, 16), rng.choice([1, 1, 2, 2, 3, 4])))
        if rng.random() < 0.5:
          base = rng.randint(1, 15 - len(rows) + 1)
          rows = list(range(base, base + len(rows)))
        if rng.random() < 0.15:
          rng.shuffle(rows)
        for row in rows:
          script += gen_row_units(rng, row, rng.choice([8, 16, 30]), state)
          if rng.random() < 0.1:
            script.append(["cut"])
        if rng.random() < 0.3:
          script.append(["ctl", "EDM"])
          if rng.random() < 0.5:
            script.append(["gap", rng.choice([20, 30])])
        script.append(["ctl", "EOC"])
        k += 1
        script.append(["gap", rng.choice([20, 45, 90, 300])])
        if rng.random() < 0.35:
          script += [["ctl", "EDM"], ["gap", rng.choice([20, 30, 120])]]
        elif rng.random() < 0.12:
          # flip the memories back without loading anything: the previous caption returns
          script += [["ctl", "EOC"], ["gap", rng.choice([20, 45, 90])]]
    elif style == "roll":
      depth = rng.choice([2, 3, 4])
      script.append(["ctl", "RU%d" % depth])
      n = rng.choice([2, 3, 5, 7])
      for _ in range(n):
        if k >= ncap:
          break
        script.append(["ctl", "CR"])
        row_units = gen_row_units(rng, rng.choice([15, 15, 15, 14, 13, 12, 1, 2, 3, 4]), rng.choice([10, 20, 30]), state)
        if knobs.get("nopac") and rng.random() < knobs["nopac"]:
          # text straight after the carriage return: column 1 of the base row, default attributes
          while row_units and (row_units[0][0] == "pac" or (row_units[0][0] == "ctl" and row_units[0][1].startswith("TO"))):
            row_units.pop(0)
          state["color"] = 0
        if knobs.get("pause"):
          row_units = _with_pauses(rng, row_units, knobs["pause"])
        script += row_units
        k += 1
        script.append(["gap", rng.choice([20, 45, 90])])
        if rng.random() < 0.1:
          script.append(["ctl", "RU%d" % depth])  # encoders repeat the style code
        elif rng.random() < 0.08:
          depth = rng.choice([2, 3, 4])  # the viewer-visible depth changes while rows are displayed
          script += [["ctl", "RU%d" % depth], ["gap", rng.choice([20, 45])]]
      if rng.random() < 0.5:
        script += [["ctl", "EDM"], ["gap", rng.choice([20, 30, 120])]]
    else:
      script.append(["ctl", "RDC"])
      n = rng.choice([1, 2, 3])
      used = set()
      for _ in range(n):
        if k >= ncap:
          break
        free = [r for r in range(1, 16) if r not in used]
        row = rng.choice(free)
        used.add(row)
        row_units = gen_row_units(rng, row, rng.choice([8, 16, 30]), state)
        if knobs.get("pause"):
          row_units = _with_pauses(rng, row_units, knobs["pause"])
        script += row_units
        k += 1
        script.append(["gap", rng.choice([20, 45, 90])])
      script += [["ctl", "EDM"], ["gap", rng.choice([20, 30, 120])]]
      if rng.random() < 0.5:
        script.append(["ctl", "ENM"])
  # leave the last caption on screen for a while, then erase it - or let the file end with it displayed
  if rng.random() < 0.7:
    script += [["gap", rng.choice([30, 90])], ["ctl", "EDM"], ["gap", 20]]
  return script


def protocol_file(rng):
  """An SCC file from the protocol grammars over a perturbing channel, as bytes: the well-formed streams that the
  storage faults of C18 are applied to (the odd sequences of producers/text.py cover the unprotocolled ones)."""
  styles = rng.choice([["pop"], ["roll"], ["paint"], ["pop", "roll"], ["pop", "paint"], ["pop", "roll", "paint"]])
  df = rng.random() < 0.4
  knobs = {"styles": styles, "captions": rng.randint(1, 6), "switch": rng.choice([0.0, 0.5]), "enm": rng.choice([0.0, 0.5, 1.0]),
           "unclean": rng.choice([0.0, 1.0]), "df": df, "start": rng.choice([0, 1798, 17982, 107892, rng.randrange(0, 200000)])}
  chan = {"double": rng.random() < 0.7, "null": rng.choice([0.0, 0.1]), "ch2": rng.choice([0.0, 0.2]), "parity_off": rng.choice([0.0, 0.5]),
          "line_len": rng.choice([6, 20, 1000]), "split": rng.choice([0.0, 0.5]), "rng": rng}
  script = gen_script(rng, knobs)
  text = transmit(script, chan, knobs["start"], df)[0]
  return text.encode("utf-8")


def scc_mixed(rng):
  """half the SCC files follow the caption protocols, half are the odd word sequences of producers/text.py"""
  from sim.producers import text as ptext
  return protocol_file(rng) if rng.random() < 0.5 else ptext.scc_simple(rng)
