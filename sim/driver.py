"""Seed-range driver shared by all checks.

  * forks W workers (default: all cores); run i of check P uses rng_for(P, VERIF_SEED, i),
    so results do not depend on the worker count or on which worker executes which index;
  * heartbeats in shared memory; a worker stuck on one run for longer than the hard limit is
    killed, the run index is re-executed alone (write-ahead op log) to confirm
    non-termination, and a replacement worker continues after it;
  * violations are grouped by signature, the lowest run index of each is minimised, written
    as a replay file, re-executed in a fresh interpreter (must reproduce the same
    signature), matched against /verif/known_findings.json and printed as
    `VIOLATION property=<id> replay=<path>` or `KNOWN-FINDING: property=<id> <what>`;
  * determinism self-test: a sample of run indices is executed again in-process and in
    fresh interpreters under two other PYTHONHASHSEED values; digests must agree;
  * evidence/<id>.json is rewritten on every run from measured numbers only.

Exit status: 0 clean (known findings allowed), 1 violation, 2 harness error / timeout.
"""
import argparse
import faulthandler
import importlib
import json
import multiprocessing as mp
import os
import signal
import subprocess
import sys
import time
import traceback
from multiprocessing.connection import wait as conn_wait

from . import core

CTX = mp.get_context("fork")
RUN_PY = os.path.join(core.VERIF_ROOT, "run.py")


def load_check(name):
  core.ensure_repo_on_path()
  return importlib.import_module("checks." + name.lower())


class Recorder:
  """Collects the concrete case of a run (knobs + ops + faults). With `path`, every op is
  appended and flushed *before* it is executed (write-ahead), so a hung run leaves its
  case behind."""

  def __init__(self, path=None):
    self.knobs = {}
    self.ops = []
    self.extra = []  # further (signature, detail, case) found in the same run
    self._f = open(path, "w", encoding="utf-8") if path else None

  def set_knobs(self, knobs):
    self.knobs = knobs
    if self._f:
      self._f.write(json.dumps({"knobs": knobs}) + "\n")
      self._f.flush()

  def op(self, op):
    self.ops.append(op)
    if self._f:
      self._f.write(json.dumps({"op": op}) + "\n")
      self._f.flush()

  def case(self):
    return {"knobs": self.knobs, "ops": self.ops}

  def close(self):
    if self._f:
      self._f.close()
      self._f = None


def execute(mod, rng=None, case=None, stats=None, oplog=None, keep_log=False, timeout=None, ctx=None, _inner=False):
  """One simulated run (generated from rng, or replayed from case). Never raises for SUT
  misbehaviour; harness bugs propagate as HarnessError."""
  if getattr(mod, "ISOLATE_RUNS", False) and not _inner:
    # the run executes in a fork of this (pristine) process; only its results come back
    limit = (timeout or mod.SOFT_TIMEOUT)
    ctx2 = None if ctx is None else {k: v for k, v in ctx.items() if k != "beat"}

    def child():
      st = core.Stats()
      r = execute(mod, rng=rng, case=case, stats=st, oplog=oplog, keep_log=keep_log, timeout=timeout, ctx=ctx2, _inner=True)
      return r, st
    status, val = core.fork_call(child, limit + 15)
    if status == "timeout":
      return {"violation": {"signature": "nontermination", "detail": "isolated run killed after %ss" % (limit + 15)}, "digest": "0" * 64, "case": case, "steps": 0, "extra": []}
    if status != "ok":
      raise core.HarnessError("isolated run failed: %s" % str(val)[-2000:])
    r, st = val
    if stats is not None:
      stats.merge(st)
      for smp in st.samples:
        pass
    return r
  rec = Recorder(oplog)
  if stats is None:
    stats = core.Stats()
  log = core.EventLog(keep=keep_log)
  res = {"violation": None, "digest": None, "case": None, "steps": 0}
  try:
    with core.soft_alarm(timeout or mod.SOFT_TIMEOUT):
      mod.run_one(rng=rng, case=case, stats=stats, rec=rec, log=log, ctx=ctx)
  except core.Violation as v:
    res["violation"] = {"signature": v.signature, "detail": v.detail}
  except core.RunTimeout:
    res["violation"] = {"signature": "nontermination", "detail": "run exceeded the soft limit of %ss" % (timeout or mod.SOFT_TIMEOUT)}
  finally:
    rec.close()
  res["case"] = rec.case() if case is None else case
  res["extra"] = rec.extra
  if res["violation"]:
    log.add("VIOLATION", res["violation"]["signature"])
  res["digest"] = log.digest()
  res["steps"] = log.n
  if keep_log:
    res["events"] = log.events
  return res


def _worker(conn, hb, slot, name, seed, next_seg, nseg, seg_size, total, first, skip):
  """Pulls segments from the shared counter until none is left. `first` = (segment, start index)
  lets a replacement worker finish the segment of a worker that was killed on a hung run."""
  try:
    faulthandler.enable()
    mod = load_check(name)
    pending = [first] if first is not None else []
    while True:
      if pending:
        k, a = pending.pop()
      else:
        with next_seg.get_lock():
          k = next_seg.value
          next_seg.value += 1
        if k >= nseg:
          break
        a = k * seg_size
      b = min(total, (k + 1) * seg_size)
      hb[3 * slot + 2] = k
      stats = core.Stats()
      viols = []
      per_sig = {}
      xor = 0
      first_digests = {}
      n = 0
      steps = 0
      for i in range(a, b):
        if i in skip:
          continue
        hb[3 * slot] = i
        hb[3 * slot + 1] = int(time.monotonic() * 1000)

        def beat(_slot=slot):
          hb[3 * _slot + 1] = int(time.monotonic() * 1000)
        res = execute(mod, rng=core.rng_for(mod.ID, seed, i), stats=stats, ctx={"seed": seed, "index": i, "beat": beat})
        n += 1
        steps += res["steps"]
        xor ^= int(res["digest"][:16], 16)
        if i < 4096:
          first_digests[i] = res["digest"]
        if res["violation"]:
          sig = res["violation"]["signature"]
          c = per_sig.get(sig, 0)
          per_sig[sig] = c + 1
          if c < 2:
            viols.append((i, sig, res["violation"]["detail"], res["case"]))
          stats.count("violating_runs")
          for xsig, xdetail, xcase in res["extra"]:
            c = per_sig.get(xsig, 0)
            per_sig[xsig] = c + 1
            if c < 2:
              viols.append((i, xsig, xdetail, xcase))
        elif len(stats.samples) < 2 and hasattr(mod, "sample_of"):
          stats.samples.append(mod.sample_of(res["case"]))
      hb[3 * slot] = -1
      conn.send(("seg", k, stats, viols, per_sig, xor, first_digests, n, steps))
    conn.send(("done",))
  except BaseException:  # harness bug inside a worker
    conn.send(("error", traceback.format_exc()))
  finally:
    conn.close()


def run_seed_range(name, mod, seed, total, workers, hard_timeout, wall_budget=None):
  seg_size = max(1, min(500, total // (workers * 24) or 1))
  nseg = (total + seg_size - 1) // seg_size
  hb = CTX.RawArray("q", 3 * workers)
  next_seg = CTX.Value("q", 0)
  for s in range(workers):
    hb[3 * s] = -1
    hb[3 * s + 2] = -1
  agg = core.Stats()
  viols = []
  sig_counts = {}
  state = {"xor": 0, "digests": {}, "runs": 0, "steps": 0, "hung": [], "errors": [], "segs_done": set()}
  procs = {}

  def spawn(slot, first=None, skip=frozenset()):
    parent, child = CTX.Pipe(duplex=False)
    p = CTX.Process(target=_worker, args=(child, hb, slot, name, seed, next_seg, nseg, seg_size, total, first, skip))
    p.daemon = True
    p.start()
    child.close()
    procs[slot] = {"p": p, "conn": parent, "skip": set(skip)}

  for s in range(min(workers, nseg)):
    spawn(s)

  t_start = time.monotonic()
  while procs:
    conns = {v["conn"]: s for s, v in procs.items()}
    ready = conn_wait(list(conns), timeout=0.5)
    for c in ready:
      s = conns[c]
      try:
        msg = c.recv()
      except EOFError:
        msg = ("eof",)
      if msg[0] == "seg":
        _, k, st, vs, per_sig, xor, fd, n, steps = msg
        agg.merge(st)
        viols.extend(vs)
        for sg, cnt in per_sig.items():
          sig_counts[sg] = sig_counts.get(sg, 0) + cnt
        state["xor"] ^= xor
        state["digests"].update(fd)
        state["runs"] += n
        state["steps"] += steps
        state["segs_done"].add(k)
      elif msg[0] == "done":
        procs[s]["p"].join(5)
        c.close()
        del procs[s]
      elif msg[0] == "error":
        state["errors"].append(msg[1])
        procs[s]["p"].join(5)
        c.close()
        del procs[s]
      elif msg[0] == "eof":
        p = procs[s]["p"]
        p.join(1)
        state["errors"].append("worker %d died (exit %s) at run %s" % (s, p.exitcode, hb[3 * s]))
        c.close()
        del procs[s]
    now_ms = int(time.monotonic() * 1000)
    for s in list(procs):
      i = hb[3 * s]
      if i >= 0 and now_ms - hb[3 * s + 1] > hard_timeout * 1000:
        # stuck: kill, remember, let a replacement finish the segment after the hung run
        pr = procs[s]
        os.kill(pr["p"].pid, signal.SIGKILL)
        pr["p"].join(5)
        pr["conn"].close()
        state["hung"].append(i)
        k = hb[3 * s + 2]
        skip = pr["skip"] | {i}
        del procs[s]
        hb[3 * s] = -1
        spawn(s, first=(k, i + 1), skip=frozenset(skip))
    if wall_budget is not None and time.monotonic() - t_start > wall_budget:
      for s in list(procs):
        os.kill(procs[s]["p"].pid, signal.SIGKILL)
        procs[s]["p"].join(5)
        procs[s]["conn"].close()
        del procs[s]
      state["errors"].append("wall budget of %ss exhausted after %d runs" % (wall_budget, state["runs"]))
  missing = nseg - len(state["segs_done"])
  if missing and not state["errors"] and not state["hung"]:
    state["errors"].append("%d segments were not reported" % missing)
  return agg, viols, sig_counts, state


def fresh_interpreter(args, hashseed=None, timeout=600, env_extra=None):
  env = dict(os.environ)
  if hashseed is not None:
    env["PYTHONHASHSEED"] = str(hashseed)
  env.pop("VERIF_TIER", None)
  if env_extra:
    env.update(env_extra)
  return subprocess.run([sys.executable, RUN_PY] + args, cwd=core.VERIF_ROOT, env=env,
                        stdout=subprocess.PIPE, stderr=subprocess.PIPE, text=True, timeout=timeout)


def determinism_selftest(name, mod, seed, worker_digests, sample):
  """Same index twice in this process, and in fresh interpreters under other hash seeds."""
  idx = sorted(i for i in worker_digests if i < sample)
  out = {"sample": len(idx), "same_process_mismatch": 0, "fresh_interpreter_mismatch": 0, "hashseeds": [0, 4242]}
  if not idx:
    return out
  again = {}
  for i in idx[:min(len(idx), 64)]:
    r = execute(mod, rng=core.rng_for(mod.ID, seed, i), ctx={"seed": seed, "index": i})
    again[i] = r["digest"]
    if r["digest"] != worker_digests[i]:
      out["same_process_mismatch"] += 1
  for hs in out["hashseeds"]:
    p = fresh_interpreter([name, "--digests", "%d:%d" % (idx[0], idx[-1] + 1), "--seed", str(seed)], hashseed=hs)
    if p.returncode != 0:
      raise core.HarnessError("digest subprocess failed: " + p.stderr[-2000:])
    got = json.loads(p.stdout.strip().splitlines()[-1])
    for i in idx:
      if got.get(str(i)) != worker_digests[i]:
        out["fresh_interpreter_mismatch"] += 1
  return out


def load_known_findings(pid):
  path = os.path.join(core.VERIF_ROOT, "known_findings.json")
  if not os.path.exists(path):
    return []
  data = core.read_json(path)
  return [f for f in data.get("findings", []) if f.get("property") == pid]


def match_known(findings, signature):
  for f in findings:
    if f.get("status") != "open":
      continue
    if f.get("signature") == signature:
      return f
  return None


def replay_in_fresh_interpreter(name, path, timeout=900):
  p = fresh_interpreter([name, "--replay", path], hashseed=0, timeout=timeout)
  sig = None
  for line in p.stdout.splitlines():
    if line.startswith("REPRODUCED signature="):
      sig = line[len("REPRODUCED signature="):].strip()
  return p.returncode, sig, p.stdout[-1500:] + p.stderr[-1500:]


def is_bad_factory(mod, signature):
  isolated = getattr(mod, "REPLAY_ISOLATED", False)

  def is_bad(case):
    if isolated:
      r = run_in_fork(lambda: execute(mod, case=case)["violation"], timeout=mod.SOFT_TIMEOUT * 4)
    else:
      try:
        r = execute(mod, case=case)["violation"]
      except Exception:
        return False
    return bool(r) and r["signature"] == signature
  return is_bad


def run_in_fork(fn, timeout):
  parent, child = CTX.Pipe(duplex=False)

  def tgt():
    try:
      child.send(("ok", fn()))
    except BaseException:
      child.send(("err", traceback.format_exc()))
  p = CTX.Process(target=tgt)
  p.start()
  child.close()
  res = None
  if parent.poll(timeout):
    try:
      res = parent.recv()
    except EOFError:
      res = None
  if p.is_alive():
    os.kill(p.pid, signal.SIGKILL)
  p.join(5)
  parent.close()
  if res is None:
    return None
  if res[0] == "err":
    return None
  return res[1]


def confirm_hang(name, mod, seed, i, limit):
  """Re-run index i alone with a write-ahead op log; returns (hung?, case)."""
  scratch = "/dev/shm/ttconv-verif-%d" % os.getpid()
  os.makedirs(scratch, exist_ok=True)
  oplog = os.path.join(scratch, "oplog-%d.jsonl" % i)
  try:
    try:
      p = fresh_interpreter([name, "--one", str(i), "--seed", str(seed), "--oplog", oplog, "--soft-timeout", str(limit)],
                            hashseed=0, timeout=limit + 30)
      hung = "nontermination" in p.stdout
    except subprocess.TimeoutExpired:
      hung = True
    knobs, ops = {}, []
    if os.path.exists(oplog):
      with open(oplog, encoding="utf-8") as f:
        for line in f:
          try:
            d = json.loads(line)
          except ValueError:
            continue
          if "knobs" in d:
            knobs = d["knobs"]
          if "op" in d:
            ops.append(d["op"])
    return hung, {"knobs": knobs, "ops": ops}
  finally:
    try:
      os.remove(oplog)
    except OSError:
      pass
    try:
      os.rmdir(scratch)
    except OSError:
      pass


def main(argv=None):
  ap = argparse.ArgumentParser()
  ap.add_argument("check")
  ap.add_argument("--tier", default=os.environ.get("VERIF_TIER") or "quick", choices=["quick", "thorough"])
  ap.add_argument("--seed", type=int, default=None)
  ap.add_argument("--runs", type=int, default=None)
  ap.add_argument("--workers", type=int, default=None)
  ap.add_argument("--replay", default=None)
  ap.add_argument("--digests", default=None, help="internal: a:b -> print {index: digest}")
  ap.add_argument("--one", type=int, default=None, help="internal: execute one run index")
  ap.add_argument("--oplog", default=None)
  ap.add_argument("--soft-timeout", type=float, default=None)
  ap.add_argument("--no-evidence", action="store_true")
  ap.add_argument("--aux", default=None, help="internal: check-specific helper entry (mod.aux_main)")
  ap.add_argument("--show", action="store_true", help="with --one/--replay: print the event log")
  args = ap.parse_args(argv)

  seed = args.seed
  if seed is None:
    try:
      seed = int(os.environ.get("VERIF_SEED", "0"))
    except ValueError:
      seed = core.sub_seed(os.environ.get("VERIF_SEED")) % (1 << 31)
  name = args.check.lower()
  mod = load_check(name)
  pid = mod.ID

  if args.aux is not None:
    return mod.aux_main(args.aux)

  if args.digests:
    a, b = (int(x) for x in args.digests.split(":"))
    out = {}
    for i in range(a, b):
      out[str(i)] = execute(mod, rng=core.rng_for(pid, seed, i), ctx={"seed": seed, "index": i})["digest"]
    print(json.dumps(out))
    return 0

  if args.one is not None:
    res = execute(mod, rng=core.rng_for(pid, seed, args.one), oplog=args.oplog, keep_log=args.show, timeout=args.soft_timeout, ctx={"seed": seed, "index": args.one})
    if args.show:
      print("\n".join(res.get("events", [])))
      print(json.dumps(res["case"])[:20000])
    print("digest", res["digest"])
    if res["violation"]:
      print("violation", res["violation"]["signature"], res["violation"]["detail"][:2000])
      return 1
    return 0

  if args.replay:
    rp = core.read_json(args.replay)
    if rp.get("property") != pid:
      print("replay file is for property %s, not %s" % (rp.get("property"), pid))
      return 2
    limit = args.soft_timeout or (rp.get("soft_timeout") or mod.SOFT_TIMEOUT)
    if getattr(mod, "REPLAY_ISOLATED", False) or rp.get("signature") == "nontermination":
      res = run_in_fork(lambda: execute(mod, case=rp["case"], keep_log=args.show, timeout=limit), timeout=limit + 20)
      if res is None:
        res = {"violation": {"signature": "nontermination", "detail": "killed after %ss" % (limit + 20)}, "digest": None}
    else:
      res = execute(mod, case=rp["case"], keep_log=args.show, timeout=limit)
    if args.show:
      print("\n".join(res.get("events", [])))
    if res["violation"]:
      print("REPRODUCED signature=" + res["violation"]["signature"])
      print("detail: " + res["violation"]["detail"][:4000])
      print("VIOLATION property=%s replay=%s" % (pid, os.path.abspath(args.replay)))
      return 1
    print("NOT-REPRODUCED (the recorded case passes on this tree); expected signature=%s" % rp.get("signature"))
    return 0

  # ---------------------------------------------------------------- exploration
  t0 = time.monotonic()
  tier = mod.TIERS[args.tier]
  total = args.runs or tier["runs"]
  workers = args.workers or min(os.cpu_count() or 1, 16)
  workers = max(1, min(workers, total))
  hard = tier.get("hard_timeout", 60)
  print("check=%s property=%s tier=%s VERIF_SEED=%d runs=%d workers=%d repo=%s" % (name, pid, args.tier, seed, total, workers, core.repo_root()))
  sys.stdout.flush()

  harness_errors = []
  if not os.environ.get("VERIF_KEEP_REPLAYS"):
    import glob
    for old in glob.glob(os.path.join(core.VERIF_ROOT, "replays", "%s-*.json" % pid)):
      try:
        os.remove(old)
      except OSError:
        pass
  agg, viols, sig_counts, st = run_seed_range(name, mod, seed, total, workers, hard, tier.get("wall_budget"))
  harness_errors.extend(st["errors"])
  t_explore = time.monotonic() - t0

  # extra deterministic phases a check may add (e.g. single-fault sweeps, hash-seed restarts)
  if hasattr(mod, "extra_phase"):
    try:
      extra_viol = mod.extra_phase(args.tier, seed, agg, workers)
      for v in extra_viol:
        viols.append(v)
        sig_counts[v[1]] = sig_counts.get(v[1], 0) + 1
    except core.HarnessError as e:
      harness_errors.append("extra_phase: %s" % e)

  # hung runs: confirm alone with a generous limit
  for i in sorted(set(st["hung"])):
    hung, case = confirm_hang(name, mod, seed, i, tier.get("confirm_timeout", 120))
    if hung:
      viols.append((i, "nontermination", "run %d did not finish within %ss when executed alone" % (i, tier.get("confirm_timeout", 120)), case))
      sig_counts["nontermination"] = sig_counts.get("nontermination", 0) + 1
    else:
      agg.count("slow_runs_rerun_ok")

  # group, minimise, write replays, verify
  findings = load_known_findings(pid)
  by_sig = {}
  for v in viols:
    by_sig.setdefault(v[1], []).append(v)
  replays_dir = os.path.join(core.VERIF_ROOT, "replays")
  reported = []
  known_lines = []
  budget_each = tier.get("shrink_budget", 20)
  t_shrink_end = time.monotonic() + tier.get("shrink_total", 240)
  for n_sig, sig in enumerate(sorted(by_sig)):
    cases = sorted(by_sig[sig], key=lambda v: v[0])
    i, _, detail, case = cases[0]
    known = match_known(findings, sig)
    minimised = False
    if sig != "nontermination" and known is None and hasattr(mod, "shrink") and n_sig < 40 and time.monotonic() < t_shrink_end:
      try:
        deadline = min(time.monotonic() + budget_each, t_shrink_end)
        small = mod.shrink(case, is_bad_factory(mod, sig), deadline)
        if small is not None and is_bad_factory(mod, sig)(small):
          case = small
          minimised = True
          rr = run_in_fork(lambda: execute(mod, case=case)["violation"], timeout=mod.SOFT_TIMEOUT * 4)
          if rr and rr["signature"] == sig:
            detail = rr["detail"]
      except Exception:
        harness_errors.append("shrink failed for %s: %s" % (sig, traceback.format_exc()[-1500:]))
    path = os.path.join(replays_dir, "%s-%d-%s-%08x.json" % (pid, seed, ("%d" % i if i >= 0 else "x%d" % n_sig), core.small_hash(sig) & 0xffffffff))
    core.write_json(path, {"property": pid, "seed": seed, "run": i, "signature": sig, "detail": detail[:4000],
                           "minimised": minimised, "case": case, "occurrences": sig_counts.get(sig, len(cases)),
                           "soft_timeout": tier.get("confirm_timeout", 120) if sig == "nontermination" else None,
                           "replay_cmd": "%s %s %s --replay %s" % (sys.executable, RUN_PY, name, path)})
    if known is not None:
      known_lines.append("KNOWN-FINDING: property=%s %s [signature=%s occurrences=%d replay=%s]" % (pid, known.get("what", ""), sig, sig_counts.get(sig, 0), path))
      continue
    rc, got, tail = replay_in_fresh_interpreter(name, path)
    if got == sig:
      reported.append((sig, path, sig_counts.get(sig, 0)))
    else:
      harness_errors.append("violation %s (run %d) did not reproduce from its replay file %s (got %s, rc %s): %s" % (sig, i, path, got, rc, tail.replace("\n", " | ")))

  # determinism self-test
  det = {"sample": 0}
  try:
    det = determinism_selftest(name, mod, seed, st["digests"], tier.get("det_sample", 32))
    if det["same_process_mismatch"] or det["fresh_interpreter_mismatch"]:
      harness_errors.append("determinism self-test failed: %s" % det)
  except Exception as e:
    harness_errors.append("determinism self-test error: %s" % e)

  wall = time.monotonic() - t0
  desc = mod.describe()
  nontrivial = agg.n_distinct(desc["nontrivial_measure"])
  cov = {
    "evaluations": st["runs"] + agg.counts.get("extra_evaluations", 0),
    "distinct_nontrivial": nontrivial,
    "rule": desc["rule"],
    "samples": agg.samples[:4] or [desc.get("sample_fallback", "no clean sample collected")],
    "exhaustive": False,
    "simulated_runs": st["runs"],
    "simulated_runs_per_hour": int(st["runs"] / max(t_explore, 1e-6) * 3600),
    "workers": workers,
    "events_logged": st["steps"],
    "run_digest_xor": "%016x" % st["xor"],
    "seed_range": [0, total],
    "distinct_by_measure": {k: len(v) for k, v in sorted(agg.distinct.items())},
    "counters": {k: agg.counts[k] for k in sorted(agg.counts)},
    "faults_injected": {k[len("fault."):]: agg.counts[k] for k in sorted(agg.counts) if k.startswith("fault.")},
    "fault_note": desc.get("fault_note", ""),
    "probes": {k[len("probe."):]: agg.counts[k] for k in sorted(agg.counts) if k.startswith("probe.")},
    "simulated_time": desc.get("simulated_time", "not applicable: the code under this property has no clock or timer"),
    "components": desc["components"],
    "determinism_selftest": det,
    "violation_signatures": {s: sig_counts[s] for s in sorted(sig_counts)},
    "known_findings_matched": len(known_lines),
    "harness_errors": harness_errors[:10],
  }
  if "simulated_time_fn" in desc:
    cov["simulated_time"] = desc["simulated_time_fn"](agg)
  ev = {
    "property_id": pid, "tier": args.tier, "seed": seed, "level": mod.LEVEL, "coverage": cov,
    "assumptions": desc["assumptions"], "wall_s": round(wall, 2), "violations": len(reported),
  }
  if not args.no_evidence and not os.environ.get("VERIF_REPO"):
    core.write_json(os.path.join(core.VERIF_ROOT, "evidence", "%s.json" % pid), ev)

  print("runs=%d (%.0f/h) events=%d distinct[%s]=%d wall=%.1fs" % (st["runs"], cov["simulated_runs_per_hour"], st["steps"], desc["nontrivial_measure"], nontrivial, wall))
  for k in sorted(agg.counts):
    if k.startswith(("fault.", "probe.", "op.")):
      print("  %-40s %d" % (k, agg.counts[k]))
  print("determinism:", json.dumps(det))
  for line in known_lines:
    print(line)
  for sig, path, cnt in reported:
    print("violation signature=%s occurrences=%d" % (sig, cnt))
    print("VIOLATION property=%s replay=%s" % (pid, path))
  for e in harness_errors:
    print("HARNESS-ERROR: " + str(e)[:3000].replace("\n", " | "))
  sys.stdout.flush()
  if reported:
    return 1
  if harness_errors:
    return 2
  return 0
