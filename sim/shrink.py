"""Signature-preserving minimisation helpers (delta debugging).

`test(candidate) -> bool` must return True iff the candidate still shows the *same*
violation signature. All helpers are deterministic and bounded by `deadline`
(time.monotonic() value); on expiry the best candidate so far is returned.
"""
import time


def _expired(deadline):
  return deadline is not None and time.monotonic() > deadline


def ddmin(items, test, deadline=None):
  """Classic ddmin on a list; returns a 1-minimal (w.r.t. chunk removal) sublist."""
  items = list(items)
  n = 2
  while len(items) >= 2 and not _expired(deadline):
    chunk = max(1, len(items) // n)
    reduced = False
    # try removing each chunk (complement testing)
    start = 0
    while start < len(items):
      if _expired(deadline):
        return items
      cand = items[:start] + items[start + chunk:]
      if cand and test(cand):
        items = cand
        n = max(n - 1, 2)
        reduced = True
        # do not advance start: the next chunk slid into place
      else:
        start += chunk
    if not reduced:
      if chunk == 1:
        break
      n = min(len(items), n * 2)
  # final single-element pass, also allows reaching the empty list / singleton
  i = 0
  while i < len(items) and not _expired(deadline):
    cand = items[:i] + items[i + 1:]
    if test(cand):
      items = cand
    else:
      i += 1
  return items


def shrink_each(items, simpler, test, deadline=None):
  """For every position try the simpler variants yielded by `simpler(item)`, in order."""
  items = list(items)
  changed = True
  rounds = 0
  while changed and rounds < 3 and not _expired(deadline):
    changed = False
    rounds += 1
    for i in range(len(items)):
      if _expired(deadline):
        return items
      for alt in simpler(items[i]):
        if alt == items[i]:
          continue
        cand = items[:i] + [alt] + items[i + 1:]
        if test(cand):
          items = cand
          changed = True
          break
  return items


def ddmin_bytes(data: bytes, test, deadline=None, max_len=65536):
  """ddmin on a byte string (used on faulted files)."""
  if len(data) > max_len:
    return data
  out = ddmin(list(data), lambda l: test(bytes(l)), deadline)
  return bytes(out)
