"""Core of the deterministic simulator: seed derivation, event log/digest, violation and
harness-error classes, per-run statistics, replay file I/O, soft watchdog.

Rules kept everywhere in /verif:
  * every random choice comes from a `random.Random` built by `rng_for(...)`; nothing
    uses `hash()`, `id()` ordering, set iteration order, wall clocks or os.urandom to
    decide anything that reaches the event log;
  * logging/evidence code never draws from a PRNG.
"""
import hashlib
import json
import os
import random
import signal
import sys

VERIF_ROOT = os.path.dirname(os.path.dirname(os.path.abspath(__file__)))


def repo_root():
  """/repo unless VERIF_REPO points at a scratch copy (used only by my own sensitivity
  experiments; registered commands never set it)."""
  return os.environ.get("VERIF_REPO", "/repo")


def repo_src():
  return os.path.join(repo_root(), "src", "main", "python")


def ensure_repo_on_path():
  """Make `import ttconv` resolve to the *current working tree* of the repository."""
  src = repo_src()
  if sys.path[0] != src:
    if src in sys.path:
      sys.path.remove(src)
    sys.path.insert(0, src)
  os.environ.setdefault("ISD_NO_MULTIPROC", "1")


def sub_seed(*labels) -> int:
  h = hashlib.sha256(":".join(str(x) for x in labels).encode("utf-8")).digest()
  return int.from_bytes(h[:8], "big")


def rng_for(*labels) -> random.Random:
  return random.Random(sub_seed(*labels))


class Violation(Exception):
  """The system under test broke the property being checked."""

  def __init__(self, signature: str, detail: str = ""):
    super().__init__(signature + (": " + detail if detail else ""))
    self.signature = signature
    self.detail = detail


class HarnessError(Exception):
  """My own machinery is wrong (never reported as a VIOLATION, never as exit 0)."""


class RunTimeout(BaseException):
  """Raised by the soft watchdog inside a run. BaseException so that `except Exception`
  in the SUT or in oracles cannot swallow it."""


class EventLog:
  """Append-only log of what happened in a run; its SHA-256 is the run digest."""

  __slots__ = ("_h", "n", "keep", "events")

  def __init__(self, keep=False):
    self._h = hashlib.sha256()
    self.n = 0
    self.keep = keep
    self.events = []

  def add(self, *items):
    s = "|".join(canon(x) for x in items)
    self._h.update(s.encode("utf-8", "backslashreplace"))
    self._h.update(b"\n")
    self.n += 1
    if self.keep:
      self.events.append(s)

  def digest(self) -> str:
    return self._h.hexdigest()


def canon(x) -> str:
  """Deterministic text form: no addresses, sorted dict keys, no set order."""
  if isinstance(x, str):
    return x
  if isinstance(x, (int, float, bool)) or x is None:
    return repr(x)
  if isinstance(x, bytes):
    return x.hex()
  if isinstance(x, (list, tuple)):
    return "[" + ",".join(canon(i) for i in x) + "]"
  if isinstance(x, dict):
    return "{" + ",".join(canon(k) + "=" + canon(x[k]) for k in sorted(x, key=canon)) + "}"
  if isinstance(x, (set, frozenset)):
    return "<" + ",".join(sorted(canon(i) for i in x)) + ">"
  return type(x).__name__ + ":" + str(x)


def small_hash(*items) -> int:
  h = hashlib.blake2b("|".join(canon(i) for i in items).encode("utf-8", "backslashreplace"), digest_size=8).digest()
  return int.from_bytes(h, "big")


class Stats:
  """Counters + distinct-value measures collected by a worker, merged by the driver."""

  DISTINCT_CAP = 400000

  def __init__(self):
    self.counts = {}
    self.distinct = {}
    self.samples = []

  def count(self, key, n=1):
    self.counts[key] = self.counts.get(key, 0) + n

  def seen(self, measure, *items):
    s = self.distinct.get(measure)
    if s is None:
      s = self.distinct[measure] = set()
    if len(s) < self.DISTINCT_CAP:
      s.add(small_hash(*items))

  def merge(self, other):
    for k, v in other.counts.items():
      self.counts[k] = self.counts.get(k, 0) + v
    for k, v in other.distinct.items():
      s = self.distinct.setdefault(k, set())
      if len(s) < 4 * self.DISTINCT_CAP:
        s |= v
    for smp in other.samples:
      if len(self.samples) < 6:
        self.samples.append(smp)

  def n_distinct(self, measure):
    return len(self.distinct.get(measure, ()))


class soft_alarm:
  """Per-run soft watchdog: SIGALRM raises RunTimeout inside the run."""

  def __init__(self, seconds):
    self.seconds = seconds

  def _handler(self, signum, frame):
    raise RunTimeout()

  def __enter__(self):
    self.old = signal.signal(signal.SIGALRM, self._handler)
    signal.setitimer(signal.ITIMER_REAL, self.seconds)
    return self

  def __exit__(self, *a):
    signal.setitimer(signal.ITIMER_REAL, 0)
    signal.signal(signal.SIGALRM, self.old)
    return False


def write_json(path, obj):
  os.makedirs(os.path.dirname(path), exist_ok=True)
  tmp = path + ".tmp"
  with open(tmp, "w", encoding="utf-8") as f:
    json.dump(obj, f, indent=1, sort_keys=True, ensure_ascii=True)
    f.write("\n")
  os.replace(tmp, path)


def read_json(path):
  with open(path, "r", encoding="utf-8") as f:
    return json.load(f)


def innermost_ttconv_frame(exc) -> str:
  """file:function of the innermost frame that lies in the ttconv source tree."""
  tb = exc.__traceback__
  best = "?"
  while tb is not None:
    fn = tb.tb_frame.f_code.co_filename
    if "/ttconv/" in fn:
      best = fn.split("/ttconv/", 1)[1] + ":" + tb.tb_frame.f_code.co_name
    tb = tb.tb_next
  return best


def innermost_frame(exc) -> str:
  tb = exc.__traceback__
  best = "?"
  while tb is not None:
    fn = tb.tb_frame.f_code.co_filename
    best = os.path.basename(fn) + ":" + tb.tb_frame.f_code.co_name
    tb = tb.tb_next
  return best


def fork_call(fn, timeout):
  """Runs fn() in a forked child (os.fork, so it also works inside daemonic workers) and returns
  ("ok", value) | ("exc", text) | ("timeout", None). The child never returns into the caller."""
  import pickle
  import select
  import time
  import traceback
  r, w = os.pipe()
  pid = os.fork()
  if pid == 0:
    code = 0
    try:
      os.close(r)
      signal.setitimer(signal.ITIMER_REAL, 0)
      signal.signal(signal.SIGALRM, signal.SIG_DFL)
      try:
        payload = pickle.dumps(("ok", fn()))
      except BaseException:  # pylint: disable=broad-except
        payload = pickle.dumps(("exc", traceback.format_exc()))
      with os.fdopen(w, "wb") as f:
        f.write(payload)
    except BaseException:  # pylint: disable=broad-except
      code = 1
    finally:
      os._exit(code)
  os.close(w)
  chunks = []
  deadline = time.monotonic() + timeout
  status = "ok"
  try:
    while True:
      left = deadline - time.monotonic()
      if left <= 0:
        status = "timeout"
        break
      ready, _, _ = select.select([r], [], [], min(left, 1.0))
      if ready:
        b = os.read(r, 1 << 20)
        if not b:
          break
        chunks.append(b)
  except BaseException:
    status = "timeout"  # e.g. the soft watchdog fired in the caller: the child must not outlive it
    raise
  finally:
    os.close(r)
    if status == "timeout":
      try:
        os.kill(pid, signal.SIGKILL)
      except OSError:
        pass
    try:
      os.waitpid(pid, 0)
    except OSError:
      pass
  if status == "timeout":
    return ("timeout", None)
  try:
    return pickle.loads(b"".join(chunks))
  except Exception:  # pylint: disable=broad-except
    return ("exc", "child died without a result")
