"""Reference for C19: `tt convert` written directly against the library, from the statement of the
property and README.md (reader by type, module configurations parsed from the JSON, document
language, named filters in order, writer by type, same serialisation). It does not import or
read ttconv.tt.

`reference(spec)` returns ("ok", bytes), ("usage-error", why) or ("error", exception type).
`documented_invalid(config)` says whether a configuration contains a value that README.md
unambiguously excludes (used to require that the CLI rejects it)."""
import io
import os
import re
import xml.etree.ElementTree as et

READ_TYPES = ("ttml", "scc", "stl", "srt", "vtt")
WRITE_TYPES = ("ttml", "srt", "vtt")


def file_type(explicit, filename):
  """--itype/--otype if given, else the file extension; case-insensitive."""
  if explicit is not None:
    return explicit.lower()
  ext = os.path.splitext(filename)[1]
  if ext.startswith("."):
    ext = ext[1:]
  return ext.lower()


def effective_config(spec):
  """A configuration file takes precedence over an inline configuration."""
  if spec.get("config_file") is not None:
    return spec["config_file"]
  return spec.get("config")


def reference(spec, data: bytes):
  import ttconv.imsc.reader as imsc_reader
  import ttconv.imsc.writer as imsc_writer
  import ttconv.scc.reader as scc_reader
  import ttconv.srt.reader as srt_reader
  import ttconv.srt.writer as srt_writer
  import ttconv.stl.reader as stl_reader
  import ttconv.vtt.reader as vtt_reader
  import ttconv.vtt.writer as vtt_writer
  from ttconv.config import GeneralConfiguration
  from ttconv.filters.document_filter import DocumentFilter
  from ttconv.imsc.config import IMSCWriterConfiguration
  from ttconv.scc.config import SccReaderConfiguration
  from ttconv.srt.config import SRTWriterConfiguration
  from ttconv.stl.config import STLReaderConfiguration
  from ttconv.vtt.config import VTTWriterConfiguration

  rt = file_type(spec.get("itype"), spec["in"])
  wt = file_type(spec.get("otype"), spec["out"])
  if rt not in READ_TYPES:
    return ("usage-error", "input type " + rt)
  if wt not in WRITE_TYPES:
    return ("usage-error", "output type " + wt)
  cfg = effective_config(spec)

  def module_config(cls):
    if cfg is None or cfg.get(cls.name()) is None:
      return None
    return cls.parse(cfg[cls.name()])

  try:
    general = module_config(GeneralConfiguration)
    if rt == "ttml":
      doc = imsc_reader.to_model(et.parse(io.BytesIO(data)))
    elif rt == "scc":
      doc = scc_reader.to_model(io.TextIOWrapper(io.BytesIO(data)).read(), module_config(SccReaderConfiguration))
    elif rt == "stl":
      doc = stl_reader.to_model(io.BytesIO(data), module_config(STLReaderConfiguration))
    elif rt == "srt":
      doc = srt_reader.to_model(io.TextIOWrapper(io.BytesIO(data), encoding="utf-8"))
    else:
      doc = vtt_reader.to_model(io.TextIOWrapper(io.BytesIO(data), encoding="utf-8"))
    if general is not None and general.document_lang is not None:
      doc.set_lang(general.document_lang)
    for name in spec.get("filters", []):
      fcls = DocumentFilter.get_filter_by_name(name)
      if fcls is None:
        continue
      ccls = fcls.get_config_class()
      fcfg = module_config(ccls)
      fcls(fcfg if fcfg is not None else ccls()).process(doc)
    if wt == "ttml":
      tree = imsc_writer.from_model(doc, module_config(IMSCWriterConfiguration))
      buf = io.BytesIO()
      tree.write(buf, encoding="utf-8")
      return ("ok", buf.getvalue())
    if wt == "srt":
      return ("ok", srt_writer.from_model(doc, module_config(SRTWriterConfiguration)).encode("utf-8"))
    return ("ok", vtt_writer.from_model(doc, module_config(VTTWriterConfiguration)).encode("utf-8"))
  except Exception as e:  # pylint: disable=broad-except
    return ("error", type(e).__name__)


# --------------------------------------------------------------------------- README.md table

_TC = re.compile(r"^\d\d:\d\d:\d\d[:;]\d\d$")
_FPS = re.compile(r"^\d+/\d+$")
_COLOR = re.compile(r"^(#[0-9a-fA-F]{6}([0-9a-fA-F]{2})?|rgb\(\d+,\d+,\d+\)|rgba\(\d+,\d+,\d+,\d+\)|[a-z]+)$")
NAMED = {"transparent", "black", "silver", "gray", "white", "maroon", "red", "purple", "fuchsia", "magenta", "green", "lime", "olive", "yellow", "navy", "blue", "teal", "aqua", "cyan"}


def _is_bool(v):
  return isinstance(v, bool)


def _color_ok(v):
  if not isinstance(v, str) or not _COLOR.match(v):
    return False
  if v[0].isalpha() and not v.startswith("rgb"):
    return v in NAMED
  return True


# (module, key) -> predicate "value is one README.md documents". None values (JSON null) are never judged.
DOCUMENTED = {
  ("general", "progress_bar"): _is_bool,
  ("general", "log_level"): lambda v: v in ("INFO", "WARN", "ERROR"),
  ("imsc_writer", "time_format"): lambda v: v in ("frames", "clock_time", "clock_time_with_frames"),
  ("imsc_writer", "fps"): lambda v: isinstance(v, str) and bool(_FPS.match(v)) and int(v.split("/")[1]) != 0,
  ("stl_reader", "disable_fill_line_gap"): _is_bool,
  ("stl_reader", "disable_line_padding"): _is_bool,
  ("stl_reader", "program_start_tc"): lambda v: isinstance(v, str) and (v == "TCP" or bool(_TC.match(v))),
  ("stl_reader", "max_row_count"): lambda v: v == "MNR" or (isinstance(v, int) and not isinstance(v, bool)),
  ("srt_writer", "text_formatting"): _is_bool,
  ("vtt_writer", "line_position"): _is_bool,
  ("vtt_writer", "text_align"): _is_bool,
  ("vtt_writer", "cue_id"): _is_bool,
  ("scc_reader", "text_align"): lambda v: v in ("auto", "left", "center", "right"),
  ("lcd", "safe_area"): lambda v: isinstance(v, int) and not isinstance(v, bool) and 0 <= v <= 30,
  ("lcd", "color"): _color_ok,
  ("lcd", "bg_color"): _color_ok,
  ("lcd", "preserve_text_align"): _is_bool,
}

# values that are not documented but whose rejection README.md does not unambiguously demand: never judged
UNJUDGED = {
  ("general", "log_level"): lambda v: v in ("DEBUG", "WARNING", "CRITICAL", "FATAL", "NOTSET") or isinstance(v, int),
  ("stl_reader", "program_start_tc"): lambda v: isinstance(v, str) and v.upper() == "TCP",
  ("stl_reader", "max_row_count"): lambda v: isinstance(v, str) and v.upper() == "MNR",
  ("scc_reader", "text_align"): lambda v: isinstance(v, str) and v.lower() in ("auto", "left", "center", "right"),
  ("lcd", "safe_area"): lambda v: (isinstance(v, (float, bool)) and 0 <= v <= 30) or (isinstance(v, str) and v.strip().isdigit() and 0 <= int(v) <= 30),
}


def documented_invalid(cfg, used_modules):
  """Returns 'module.key=value' of the first documented-invalid value in a module that this
  conversion actually uses, else None."""
  if not isinstance(cfg, dict):
    return None
  for mod in sorted(cfg):
    if mod not in used_modules or not isinstance(cfg[mod], dict):
      continue
    for key in sorted(cfg[mod]):
      pred = DOCUMENTED.get((mod, key))
      v = cfg[mod][key]
      if pred is None or v is None:
        continue
      try:
        ok = pred(v)
      except Exception:  # pylint: disable=broad-except
        ok = False
      if ok:
        continue
      uj = UNJUDGED.get((mod, key))
      if uj is not None and uj(v):
        continue
      return "%s.%s=%r" % (mod, key, v)
  return None


def used_modules(spec):
  """Configuration modules a conversion reads (others are ignored by design)."""
  rt = file_type(spec.get("itype"), spec["in"])
  wt = file_type(spec.get("otype"), spec["out"])
  out = {"general"}
  if rt == "scc":
    out.add("scc_reader")
  if rt == "stl":
    out.add("stl_reader")
  if wt == "ttml":
    out.add("imsc_writer")
  if wt == "srt":
    out.add("srt_writer")
  if wt == "vtt":
    out.add("vtt_writer")
  if "lcd" in spec.get("filters", []):
    out.add("lcd")
  return out
