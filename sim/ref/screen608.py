"""Reference CEA-608 caption decoder (channel 1, field 1) - the executable model for C08.

It is fed the *transmitted* words (7-bit byte pairs with their frame numbers), does its own
channel filtering and redundant-code suppression, and keeps two 15x32 memories, a mode, a cursor
and the current pen attributes, per 47 CFR 15.119 / CEA-608:

  RCL pop-on mode (writes go to the non-displayed memory), RDC paint-on (displayed memory),
  RU2-4 roll-up (displayed memory, base row 15, erases both memories when the previous mode was
  not roll-up), CR rolls the window up, EOC flips the memories and selects pop-on, EDM / ENM
  erase, PAC positions the cursor and sets the pen, mid-row codes occupy one blank cell and set
  the pen (a colour code turns italics off, the italics code keeps the colour), tab offsets
  move the cursor without writing, BS erases the cell to the left, a special character is one
  cell, an extended character first backspaces over its fallback character.

Every change of the *displayed* memory is recorded as an event (frame of the first and last
copy of the triggering word, kind).
"""

COLORS = ["white", "green", "blue", "cyan", "red", "yellow", "magenta"]
STD_SPECIAL = {0x2a: "á", 0x5c: "é", 0x5e: "í", 0x5f: "ó", 0x60: "ú", 0x7b: "ç", 0x7c: "÷", 0x7d: "Ñ", 0x7e: "ñ", 0x7f: "█"}
SPECIAL = ["®", "°", "½", "¿", "™", "¢", "£", "♪", "à", " ", "è", "â", "ê", "î", "ô", "û"]

PAC_ROWS = {(0x11, 0): 1, (0x11, 1): 2, (0x12, 0): 3, (0x12, 1): 4, (0x15, 0): 5, (0x15, 1): 6, (0x16, 0): 7, (0x16, 1): 8,
            (0x17, 0): 9, (0x17, 1): 10, (0x10, 0): 11, (0x13, 0): 12, (0x13, 1): 13, (0x14, 0): 14, (0x14, 1): 15}


class Screen608:
  def __init__(self, ext_table):
    self.ext = ext_table
    self.mode = None
    self.disp = {}
    self.nond = {}
    self.row = 15
    self.col = 1
    self.pen = ("white", False, False)  # colour, italic, underline
    self.depth = 0
    self.last_code = None  # (word, frame) of the last accepted control-type word
    self.ch = 1
    self.events = []
    self.states = []  # snapshot after each event
    self.probes = {}
    self.suppressed = []  # frames of words ignored as redundant copies
    self.reused = {}  # id() of row buffers that a PAC re-addressed while they held content -> set of relations
    self.states_reused = []  # per event: displayed rows that were written over earlier content
    self.base = 15  # roll-up base row a 608 decoder would use (the display model below stays anchored at row 15)
    self.states_base = []  # per event

  # ---------------------------------------------------------------- helpers
  def _mem(self):
    return self.disp if self.mode in ("roll", "paint") else self.nond

  def _put(self, ch):
    mem = self._mem()
    row = mem.setdefault(self.row, [None] * 32)
    row[self.col - 1] = (ch, self.pen[0], self.pen[1], self.pen[2])
    if self.col < 32:
      self.col += 1

  def _bs(self):
    if self.col > 1:
      self.col -= 1
      mem = self._mem()
      row = mem.get(self.row)
      if row is not None:
        row[self.col - 1] = None

  def _mark_reused(self, cells, col):
    """a PAC addresses column `col` of a row that already holds content: left of it, at its start, or inside / right of it"""
    first = min(i for i, c in enumerate(cells) if c is not None) + 1
    rel = "left" if col < first else ("start" if col == first else "inside")
    self.reused.setdefault(id(cells), set()).add(rel)

  def snapshot(self):
    out = {}
    for r, cells in self.disp.items():
      if any(c is not None and c[0] != " " for c in cells):
        out[r] = list(cells)
    return out

  def _probe(self, name):
    self.probes[name] = self.probes.get(name, 0) + 1

  # ---------------------------------------------------------------- word input
  def feed(self, w, frame):
    b1, b2 = w
    if b1 == 0 and b2 == 0:
      return
    if 0x10 <= b1 <= 0x1f:
      # redundant transmission: an identical code in the very next frame is ignored
      if self.last_code is not None and self.last_code[0] == w and self.last_code[1] == frame - 1:
        if self.events and self.events[-1]["first"] == frame - 1 and self.events[-1].get("code") == w:
          self.events[-1]["last"] = frame
        self.suppressed.append(frame)
        self.last_code = None
        return
      self.last_code = (w, frame)
      if b1 in (0x15, 0x1d) and 0x20 <= b2 <= 0x2f:
        # miscellaneous control codes of the second field (CC3 / CC4): another channel takes over
        self.ch = 3
        return
      ch = 2 if (b1 & 0x08) else 1
      self.ch = ch
      if ch != 1:
        return
      self._code(b1, b2, frame)
      return
    self.last_code = None
    if self.ch != 1:
      return
    direct = self.mode in ("roll", "paint")
    for b in (b1, b2):
      if b >= 0x20:
        self._put(STD_SPECIAL.get(b, chr(b)))
    if direct:
      self._event(frame, None, "text")

  def _event(self, frame, w, kind):
    """a word that acts on the displayed memory (or on its cursor / pen in the direct modes)"""
    self.events.append({"first": frame, "last": frame, "kind": kind, "code": w})
    self.states.append(self.snapshot())
    self.states_reused.append(dict((r, sorted(self.reused[id(cells)])) for r, cells in self.disp.items() if id(cells) in self.reused))
    self.states_base.append(self.base if self.mode == "roll" else 15)

  def _code(self, b1, b2, frame):
    w = (b1, b2)
    was_direct = self.mode in ("roll", "paint")
    kind = "code"
    if b2 >= 0x40:
      rk = PAC_ROWS.get((b1, 1 if (b2 & 0x20) else 0))
      if rk is None:
        return
      attr = b2 & 0x1f
      ul = bool(attr & 1)
      if attr >= 0x10:
        self.pen = ("white", False, ul)
        col = ((attr - 0x10) >> 1) * 4 + 1
      elif attr >= 0x0e:
        self.pen = ("white", True, ul)
        col = 1
      else:
        self.pen = (COLORS[attr >> 1], False, ul)
        col = 1
      if self.mode == "roll":
        # the window stays anchored at row 15 in this model (the reader documents that it forces the base row)
        self.col = col
        self.base = max(rk, self.depth)  # a decoder moves the window so that its base row is the PAC's row
        self._probe("pac_in_rollup")
        if 15 in self.disp and any(c is not None for c in self.disp[15]):
          self._probe("pac_on_reused_row")
          self._mark_reused(self.disp[15], col)
      else:
        if rk in self._mem() and any(c is not None for c in self._mem()[rk]):
          self._probe("pac_on_reused_row")
          self._mark_reused(self._mem()[rk], col)
        self.row = rk
        self.col = col
      kind = "pac"
    elif b1 == 0x11 and 0x20 <= b2 <= 0x2f:
      ul = bool(b2 & 1)
      c = (b2 - 0x20) >> 1
      self._put(" ")
      if c == 7:
        self.pen = (self.pen[0], True, ul)
      else:
        self.pen = (COLORS[c], False, ul)
      kind = "midrow"
    elif b1 == 0x11 and 0x30 <= b2 <= 0x3f:
      self._put(SPECIAL[b2 - 0x30])
      kind = "special"
    elif b1 in (0x12, 0x13) and 0x20 <= b2 <= 0x3f:
      self._bs()
      self._put(self.ext.get((b1, b2), "�"))
      kind = "extended"
    elif b1 == 0x17 and 0x21 <= b2 <= 0x23:
      self.col = min(32, self.col + (b2 - 0x20))
      kind = "tab"
    elif b1 == 0x14:
      kind = self._misc(b2)
    else:
      return
    if was_direct or self.mode in ("roll", "paint") or kind in ("EOC", "EDM"):
      self._event(frame, w, kind)

  def _misc(self, b2):
    if b2 == 0x20:
      self.mode = "pop"
      return "RCL"
    if b2 == 0x21:
      self._bs()
      return "BS"
    if b2 in (0x25, 0x26, 0x27):
      if self.mode != "roll":
        self.disp = {}
        self.nond = {}
        self.row, self.col = 15, 1
        self.base = 15
      self.mode = "roll"
      self.depth = b2 - 0x23
      self.row = 15
      # rows above the new window disappear
      for r in list(self.disp):
        if r <= 15 - self.depth:
          del self.disp[r]
      return "RU"
    if b2 == 0x29:
      self.mode = "paint"
      return "RDC"
    if b2 == 0x2c:
      self.disp = {}
      return "EDM"
    if b2 == 0x2d:
      if self.mode == "roll":
        new = {}
        for r, cells in self.disp.items():
          if 15 - self.depth + 1 < r <= 15:
            new[r - 1] = cells
        self.disp = new
        self.row, self.col = 15, 1
        self.pen = ("white", False, False)  # attributes end with the row; an empty row starts white, non-underlined
      return "CR"
    if b2 == 0x2e:
      self.nond = {}
      return "ENM"
    if b2 == 0x2f:
      self.disp, self.nond = self.nond, self.disp
      self.mode = "pop"
      return "EOC"
    return "other"


def render(snapshot):
  """{row: cells} -> [(row, [(char, colour, italic, underline), ...])] with row ends stripped and
  runs of blanks collapsed to one blank (blank cells carry no attributes)."""
  out = []
  for r in sorted(snapshot):
    cells = [(" ", None, None, None) if (c is None or c[0] == " ") else c for c in snapshot[r]]
    while cells and cells[0][0] == " ":
      cells.pop(0)
    while cells and cells[-1][0] == " ":
      cells.pop()
    res = []
    for c in cells:
      if c[0] == " " and res and res[-1][0] == " ":
        continue
      res.append(tuple(c))
    if res:
      out.append((r, res))
  return out
