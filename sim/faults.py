"""Storage / channel fault injector for byte streams.

A fault is a small JSON-able list; `apply(data, fault, fmt)` is a pure function, so a replay file
needs only the pre-fault bytes and the fault list. `fired` is decided by comparing bytes before
and after, never by configuration."""
import re

KINDS = ["eof", "flip", "overwrite", "zero", "drop", "dup", "swap", "splice", "torn", "badutf8", "boundary", "valuetok"]


def records(data: bytes, fmt: str):
  """(start, end) of the records of a stream: lines for text formats, 1024-byte GSI + 128-byte
  TTI blocks for STL, tags / attributes for TTML, words for SCC (odd calls)."""
  out = []
  if fmt == "stl":
    if len(data) <= 1024:
      return [(0, len(data))]
    out.append((0, 1024))
    p = 1024
    while p < len(data):
      out.append((p, min(len(data), p + 128)))
      p += 128
    return out
  if fmt == "ttml":
    for m_ in re.finditer(rb"<[^<>]*>|[\w:]+=\"[^\"]*\"", data):
      out.append((m_.start(), m_.end()))
    return out or [(0, len(data))]
  p = 0
  for line in data.splitlines(keepends=True):
    out.append((p, p + len(line)))
    p += len(line)
  return out or [(0, len(data))]


def sub_records(data: bytes, fmt: str):
  """finer records: SCC words, TTML attributes, tokens separated by blanks otherwise."""
  out = []
  if fmt in ("srt", "vtt"):
    # inline tags, entities and timestamps are records of their own in the cue-text grammars
    for m_ in re.finditer(rb"</?[^<>\n]*>|&[#\w]*;?|\d+:\d+[:.,\d]*", data):
      out.append((m_.start(), m_.end()))
  for m_ in re.finditer(rb"[^\s]+", data):
    out.append((m_.start(), m_.end()))
  out.sort()
  return out or [(0, len(data))]


BOUNDARY_NUMS = [b"0", b"00", b"99", b"999", b"60", b"24", b"100", b"101", b"255", b"256", b"65535", b"4294967296", b"-1", b"", b"99999999999999999999999"]


def gen_fault(rng, data: bytes, fmt: str, kinds, donor: bytes = b""):
  """Draw one concrete fault for `data`."""
  n = len(data)
  kind = rng.choice(kinds)
  recs = records(data, fmt) if rng.random() < 0.7 else sub_records(data, fmt)
  if kind == "eof":
    r = rng.random()
    if r < 0.1:
      k = 0
    elif r < 0.6 and recs:
      s, e = rng.choice(recs)
      k = max(0, min(n, rng.choice([s, e]) + rng.choice([-1, 0, 0, 1])))
    else:
      k = rng.randint(0, n)
    return ["eof", k]
  if kind == "flip":
    return ["flip", [[rng.randrange(max(1, n)), rng.randrange(8)] for _ in range(rng.choice([1, 1, 2, 8]))]]
  if kind == "overwrite":
    s = rng.randrange(max(1, n))
    ln = rng.choice([1, 1, 2, 4, 16])
    return ["overwrite", s, [rng.randrange(256) for _ in range(ln)]]
  if kind == "zero":
    s = rng.randrange(max(1, n))
    return ["zero", s, rng.choice([1, 4, 16, 128, 512])]
  if kind in ("drop", "dup", "swap"):
    i = rng.randrange(len(recs))
    return [kind, "r" if recs is not None else "s", list(recs[i]), list(recs[i + 1]) if i + 1 < len(recs) else list(recs[i])]
  if kind == "splice":
    if donor:
      drecs = records(donor, fmt)
      s, e = rng.choice(drecs)
      chunk = donor[s:e][:256]
    else:
      chunk = b""
    at = rng.choice(recs)[rng.choice([0, 1])]
    return ["splice", at, list(chunk)]
  if kind == "torn":
    s, e = rng.choice(recs)
    mid = (s + e) // 2
    return ["torn", mid, e, [rng.choice([0x00, 0x20, 0xff])] * 1]
  if kind == "badutf8":
    at = rng.randrange(max(1, n))
    return ["badutf8", at, rng.choice([[0xc3], [0xe2, 0x82], [0xff], [0xc0, 0x80], [0xed, 0xa0, 0x80], [0xf4, 0x90, 0x80, 0x80], [0x80]])]
  if kind == "valuetok":
    # lose or repeat one blank-separated token inside a quoted value / a line (a short or long write of one field)
    toks = list(re.finditer(rb"(?<=[\" \t])[^\"\s<>=]+(?=[\" \t\r\n])", data))
    if not toks:
      return ["eof", n]
    m_ = rng.choice(toks)
    a, b = m_.start(), m_.end()
    if data[b:b + 1] in (b" ", b"\t"):
      b += 1  # the separator after the token goes with it
    elif data[a - 1:a] in (b" ", b"\t"):
      a -= 1  # last token of the value: the separator before it goes with it
    return [rng.choice(["drop", "dup"]), "t", [a, b], [m_.start(), m_.end()]]
  if kind == "boundary":
    nums = list(re.finditer(rb"\d+", data))
    if not nums:
      return ["eof", n]
    m_ = rng.choice(nums)
    return ["boundary", m_.start(), m_.end(), list(rng.choice(BOUNDARY_NUMS))]
  raise ValueError(kind)


def apply(data: bytes, fault, fmt: str) -> bytes:
  k = fault[0]
  n = len(data)
  if k == "eof":
    return data[:fault[1]]
  if k == "flip":
    b = bytearray(data)
    for pos, bit in fault[1]:
      if pos < len(b):
        b[pos] ^= 1 << bit
    return bytes(b)
  if k == "overwrite":
    s = min(fault[1], n)
    chunk = bytes(fault[2])
    return data[:s] + chunk + data[s + len(chunk):]
  if k == "zero":
    s = min(fault[1], n)
    e = min(n, s + fault[2])
    return data[:s] + b"\x00" * (e - s) + data[e:]
  if k == "drop":
    s, e = fault[2]
    return data[:s] + data[e:]
  if k == "dup":
    s, e = fault[2]
    return data[:e] + data[s:e] + data[e:]
  if k == "swap":
    (s1, e1), (s2, e2) = fault[2], fault[3]
    if e1 > s2:
      return data
    return data[:s1] + data[s2:e2] + data[e1:s2] + data[s1:e1] + data[e2:]
  if k == "splice":
    at = min(fault[1], n)
    return data[:at] + bytes(fault[2]) + data[at:]
  if k == "torn":
    mid, e = min(fault[1], n), min(fault[2], n)
    return data[:mid] + bytes(fault[3]) * (e - mid) + data[e:]
  if k == "badutf8":
    at = min(fault[1], n)
    return data[:at] + bytes(fault[2]) + data[at:]
  if k == "boundary":
    s, e = min(fault[1], n), min(fault[2], n)
    return data[:s] + bytes(fault[3]) + data[e:]
  raise ValueError(k)


def apply_all(data: bytes, faults, fmt: str, stats=None) -> bytes:
  for f in faults:
    new = apply(data, f, fmt)
    if stats is not None:
      stats.count("fault.%s.%s" % (f[0], "fired" if new != data else "noop"))
    data = new
  return data
