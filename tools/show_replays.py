#!/venv/bin/python
"""Prints the replay files of a check in readable form: tools/show_replays.py C18"""
import base64, glob, json, sys
pid = sys.argv[1]
for f in sorted(glob.glob('/verif/replays/%s-*.json' % pid)):
  d = json.load(open(f))
  k = d['case']['knobs']
  print('==', d['signature'], 'min=%s' % d['minimised'], 'n=%s' % d['occurrences'], f)
  print('   ', d['detail'][:300].replace('\n', ' | '))
  if 'data' in k:
    data = base64.b64decode(k['data'])
    print('    fmt', k['fmt'], 'cfg', {a: b for a, b in k['cfg'].items() if b not in (None, [None], {})}, 'ops', d['case']['ops'][:4])
    print('    data', data[:700] if k['fmt'] != 'stl' else (len(data), data[:64], [data[i:i+128][:16].hex() + '..' + data[i+16:i+128].rstrip(b'\x8f').hex() for i in range(1024, min(len(data), 1024+128*4), 128)]))
  else:
    print('    knobs', json.dumps(k)[:600]); print('    ops', json.dumps(d['case']['ops'])[:1500])
