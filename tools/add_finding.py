#!/venv/bin/python
"""tools/add_finding.py <property> <fixed|open> <commit|-> <signature> <what failed>  (development-time only)"""
import json, sys
p = '/verif/known_findings.json'
d = json.load(open(p))
prop, status, commit, sig, what = sys.argv[1:6]
e = {"property": prop, "status": status, "signature": sig, "what": what}
if status == "fixed":
  e["commit"] = commit
  e["line"] = "fixed: property=%s %s %s" % (prop, commit, what)
d["findings"] = [f for f in d["findings"] if not (f["property"] == prop and f["signature"] == sig and f.get("commit") == e.get("commit"))]
d["findings"].append(e)
json.dump(d, open(p, 'w'), indent=1)
open(p, 'a').write("\n")
