import json,glob
for f in sorted(glob.glob('/verif/replays/C08-*.json')):
    d=json.load(open(f))
    print('==',d['signature'], d['minimised'], 'n=%d'%d['occurrences'], f); k=d['case']['knobs']; print('  df',k['df'],'start',k['start'],'chan',k['chan'],'ta',k['text_align']); print('  ',d['case']['ops']); print('  ',d['detail'][:1000].replace('\n','\n   '))
