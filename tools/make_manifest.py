#!/venv/bin/python
"""Writes /verif/MANIFEST.json from the tables below (single source of truth for commands)."""
import json
import os

HERE = os.path.dirname(os.path.dirname(os.path.abspath(__file__)))
PY = "/venv/bin/python"


def cmd(check, tier):
  return "%s /verif/run.py %s --tier %s" % (PY, check, tier)


CHECKS = {
  "C15": {
    "engine": "simmodel",
    "category": "exploration",
    "text": ("Seeded search over histories of model API calls (legal and deliberately illegal) on two documents and a pool of "
             "elements of every kind; after every call the whole universe is checked against global well-formedness invariants "
             "(links, acyclicity, single parent, one document per tree, content model incl. ruby patterns, region references, "
             "stored values) and every rejected single-element call against a before/after fingerprint. Sampling, not proof: "
             "a clean batch is evidence that no short history (<= 60 calls, <= 14 elements) breaks the model."),
    "design_ref": "DESIGN.md section 3 (C15)",
    "note": ("Trusted: my invariant checker (written from doc/data_model.md) and validity tags of test values. Assumes that "
             "histories over <= 14 elements and 2 documents are representative; region-reference invariant evaluated for elements "
             "reachable from a document body."),
    "technique": "deterministic simulation: seeded API-call histories with injected rejected calls, invariants after every step, ddmin-minimised replay",
  },
  "C08": {
    "engine": "sim608",
    "category": "exploration",
    "text": ("A simulated caption encoder executes seeded pop-on / roll-up / paint-on scripts and owns the frame clock; a simulated line-21 channel "
             "perturbs the word stream (codes once or twice, null padding, channel-2 bursts, parity cleared, different line segmentation, NDF/DF "
             "labels from seeded start frames incl. minute, ten-minute and hour boundaries, idle gaps); the real SCC reader decodes it and a "
             "reference CEA-608 decoder is fed the same transmitted words in lock step. History oracle: every emitted begin/end is an exact frame "
             "multiple, not before its line label and inside the transmission window of display-affecting words; in the middle of every quiescent "
             "interval the document shows the same rows, characters and pen attributes as the reference displayed memory. Sampling over scripts "
             "and channel schedules."),
    "design_ref": "DESIGN.md section 3 (C08)",
    "note": ("Trusted: sim/ref/screen608.py as a model of CEA-608 for the generated (protocol-following) scripts; comparison only at quiescent frames "
             "with blank runs collapsed; roll-up compared anchored at base row 15. Six open known findings: four with one root cause (rows written over earlier content, pop-on and paint-on, "
             "characters and attributes), roll-up base row forced to 15, roll-up rows displayed before their later words are received."),
    "technique": "deterministic simulation: simulated encoder + perturbing channel with a simulated frame clock, lock-step reference decoder, history check of display and change times",
  },
  "C18": {
    "engine": "simio",
    "category": "fault_enumeration",
    "text": ("Simulated authoring tools (and the bundled corpus) produce files of the five input formats; a storage/channel fault injector "
             "applies seeded fault sequences (EOF at any byte, bit flips, overwritten/zero-filled ranges, dropped/duplicated/swapped/misdirected "
             "records, torn blocks, broken UTF-8, boundary values); the real reader consumes the result through tt.py-like streams and any "
             "returned document goes through ISD generation, the LCD filter and all three writers under seeded valid configurations. 8 of every "
             "400 runs are sweep runs that enumerate the complete single-fault space (every truncation offset, 4 corruptions per byte, every record "
             "drop/duplication/swap) of one small seeded file. Oracle: the error-class contract of the statement, termination, and no exception "
             "downstream. Complete along the single-fault dimension per swept file; files and multi-fault combinations are sampled."),
    "design_ref": "DESIGN.md section 3 (C18)",
    "note": ("Trusted: exception classification (xml.etree rejections count as input-format errors; the listed input-format errors are read as exhaustive), wall-clock termination limits, producers as workload only."),
    "technique": "deterministic simulation with fault injection: producer -> faulted storage -> real reader -> real pipeline; single-fault crash-point sweeps + seeded multi-fault sampling",
  },
  "C14": {
    "engine": "simisd",
    "category": "exploration",
    "text": ("Seeded histories of significant_times / from_model (uncached and with kept, stale SignificantTimes objects) / generate_isd_sequence / "
             "SRT / WebVTT / IMSC writer calls on ONE shared document; after every call the source fingerprint (and that of cached per-region "
             "clones) must be unchanged, the result must equal the same call on a pristine equal document, repeats must agree, and cached "
             "snapshots must equal uncached ones modulo empty regions that paint nothing and content subtrees without text or line breaks. Sampling over documents (model-API recipes and reader "
             "outputs), times and call orders."),
    "design_ref": "DESIGN.md section 3 (C14)",
    "note": "Trusted: canonical forms of ISDs/documents, the paint rule for empty regions, determinism of my recipe builder (guarded: two builds must fingerprint equal).",
    "technique": "deterministic simulation: seeded call histories on shared mutable state vs. pristine-clone reference, fingerprint invariants after every call",
  },
  "C19": {
    "engine": "simcli",
    "category": "exploration",
    "text": ("Seeded histories of 3-12 `tt` command lines run by the real ttconv.tt.main in one interpreter forked from a pristine template, on an "
             "in-memory file system behind builtins.open/io.open; each command is compared byte for byte with my library composition (reader, "
             "filters in order, writer, configurations parsed from the JSON, file-over-inline precedence, document_lang) computed in its own pristine "
             "fork; usage faults (unsupported types, unknown sub-commands, documented-invalid configuration values from README.md) must end in an "
             "error and leave no output file; histories are repeated in reversed order and, one in eight, in fresh interpreters under three hash seeds."),
    "design_ref": "DESIGN.md section 3 (C19)",
    "note": "Trusted: sim/ref/pipeline.py (reference composition and README-derived table of documented values), simfs fidelity for the open() modes tt.py uses. Disk faults are not injected (no outcome defined by the statement).",
    "technique": "deterministic simulation: command histories in one simulated process over an in-memory disk, pristine-fork reference model, usage-fault injection, restarts under other hash seeds",
  },
}

NA = {
  "C01": "pure function of (document, time): no schedule, clock, fault or history in the statement; simulation would only be input generation",
  "C02": "significant times and the snapshot sequence are pure functions of the document; time is an argument, not a clock",
  "C03": "style resolution is a pure function of (document, time)",
  "C04": "tree-to-tree mapping against an external specification; no I/O seam, schedule or history (crash-freedom under damaged input is covered by C18)",
  "C05": "composition of two pure functions (write, read); no fault in the statement",
  "C06": "pure function document -> string",
  "C07": "pure function document -> string",
  "C09": "STL reader copies literal time codes; value decoding for all inputs, no delivery schedule (damage to the stream is C18)",
  "C10": "SRT reader copies literal time stamps; value decoding for all inputs",
  "C11": "WebVTT reader copies literal time stamps and geometry; value decoding for all inputs",
  "C12": "arithmetic identities over a finite domain, to be settled by exhaustive enumeration (model checking), not by sampling schedules",
  "C13": "shape invariant of a pure function of (document, time)",
  "C16": "deterministic in-place function of (document, configuration); 'twice equals once' is a two-call composition, not a history space",
  "C17": "classification of 65 536 values: exhaustive table enumeration, not simulation",
}


def main():
  props = [json.loads(l) for l in open(os.path.join(HERE, "properties.jsonl"))]
  ids = [p["id"] for p in props]
  checks = []
  for pid in ids:
    if pid not in CHECKS:
      continue
    c = CHECKS[pid]
    name = pid.lower()
    checks.append({
      "property_id": pid,
      "quick_cmd": cmd(name, "quick"),
      "thorough_cmd": cmd(name, "thorough"),
      "evidence_file": "/verif/evidence/%s.json" % pid,
      "replay_cmd_template": "%s /verif/run.py %s --replay {path}" % (PY, name),
      "engine": c["engine"],
      "level_claimed": {"category": c["category"], "text": c["text"], "design_ref": c["design_ref"]},
      "level_note": c["note"],
      "technique": c["technique"],
    })
  na = [{"property_id": pid, "reason": NA[pid]} for pid in ids if pid not in CHECKS and pid in NA]
  missing = [pid for pid in ids if pid not in CHECKS and pid not in NA]
  for pid in missing:
    na.append({"property_id": pid, "reason": "check under construction in this family (see DESIGN.md section 3); not claimed until its machinery is committed"})
  na.sort(key=lambda x: x["property_id"])
  manifest = {
    "version": 1,
    "setup_cmd": "%s -m compileall -q /verif/sim /verif/checks /verif/run.py && %s /verif/tools/selftest.py" % (PY, PY),
    "hooks": {
      "guard": "TTCONV_VERIF",
      "enable": "no hooks exist: every seam (builtins.open/io.open, reader stream arguments, logging, the SCC frame clock through emitted times) is reached from outside; checks import /repo/src/main/python directly, so there is nothing to build",
      "baseline_off_cmd": "cd /repo && /venv/bin/python -m pytest -ra -q -p no:cacheprovider --timeout=900 --continue-on-collection-errors",
      "source_commits": [],
      "add_only": True,
    },
    "engines": [
      {"name": "simcore", "path": "/verif/sim", "serves_properties": sorted(CHECKS), "kind_free_text": "seed-range driver, event log/digest, signature-preserving ddmin, replay, determinism self-test, watchdogs"},
      {"name": "simmodel", "path": "/verif/checks/c15.py", "serves_properties": ["C15"], "kind_free_text": "API-call history machine over the canonical model"},
      {"name": "simio", "path": "/verif/checks/c18.py", "serves_properties": ["C18"], "kind_free_text": "producers + storage/channel fault injector (sim/faults.py, sim/producers) + real reader pipeline"},
      {"name": "simisd", "path": "/verif/checks/c14.py", "serves_properties": ["C14"], "kind_free_text": "shared-document call histories vs pristine reference"},
      {"name": "sim608", "path": "/verif/checks/c08.py", "serves_properties": ["C08"], "kind_free_text": "caption encoder + channel (sim/producers/scc608.py), reference decoder (sim/ref/screen608.py), document evaluator"},
      {"name": "simcli", "path": "/verif/checks/c19.py", "serves_properties": ["C19"], "kind_free_text": "tt.main histories over an in-memory file system (sim/simfs.py) vs library pipeline (sim/ref/pipeline.py)"},
    ],
    "checks": checks,
    "not_applicable": na,
    "notes": "Technique family: deterministic simulation with fault injection. Exit 0 clean, 1 VIOLATION, 2 harness error. See DESIGN.md.",
  }
  with open(os.path.join(HERE, "MANIFEST.json"), "w") as f:
    json.dump(manifest, f, indent=1)
    f.write("\n")


if __name__ == "__main__":
  main()
