#!/venv/bin/python
"""Engine self-test run by MANIFEST.setup_cmd (no SUT involved): seed derivation is stable,
the event-log digest is order sensitive, ddmin minimises a planted failure."""
import os
import sys

sys.path.insert(0, os.path.dirname(os.path.dirname(os.path.abspath(__file__))))
from sim import core, shrink  # noqa: E402


def main():
  assert core.sub_seed("C15", 0, 1) == core.sub_seed("C15", 0, 1)
  assert core.sub_seed("C15", 0, 1) != core.sub_seed("C15", 0, 2)
  assert core.rng_for("x", 1).random() == core.rng_for("x", 1).random()
  a, b = core.EventLog(), core.EventLog()
  a.add(1, "x"); a.add(2, "y")
  b.add(2, "y"); b.add(1, "x")
  assert a.digest() != b.digest()
  assert core.canon({"b": 1, "a": {2, 1}}) == "{a=<1,2>,b=1}"
  planted = lambda l: 3 in l and 7 in l  # noqa: E731
  assert shrink.ddmin(list(range(20)), planted) == [3, 7]
  assert shrink.ddmin_bytes(b"hello world!", lambda d: b"o" in d and b"!" in d) in (b"o!",)
  # simfs: files under /simfs/ live in memory, are created at open("w") and committed at close
  from sim.simfs import SimFS
  import pathlib
  fs = SimFS().install()
  try:
    f = open("/simfs/a/b.txt", "w", encoding="utf-8")
    assert fs.get("/simfs/a/b.txt") == b"", "the file must exist (empty) as soon as it is opened for writing"
    f.write("héllo\n")
    f.close()
    assert fs.get("/simfs/a/b.txt") == "héllo\n".encode("utf-8")
    assert pathlib.Path("/simfs/a/b.txt").read_text(encoding="utf-8") == "héllo\n"
    assert open("/simfs/a/b.txt", "rb").read() == "héllo\n".encode("utf-8")
    try:
      open("/simfs/missing", "r")
      raise AssertionError("missing file opened")
    except FileNotFoundError:
      pass
    assert not os.path.exists("/simfs/a/b.txt"), "nothing may reach the real file system"
    with open(__file__, "rb") as real:
      assert real.read(2) == b"#!"
  finally:
    fs.uninstall()
  print("selftest ok")


if __name__ == "__main__":
  main()
