#!/bin/bash
# tools/try_mutant.sh <worktree-or-copy-of-repo> <check> [runs]  -> runs the check against a scratch copy (VERIF_REPO)
# development-time only; registered commands never use it.
wt=$1; chk=$2; runs=${3:-}
cd /verif
if [ -n "$runs" ]; then extra="--runs $runs"; else extra="--tier quick"; fi
VERIF_REPO=$wt VERIF_KEEP_REPLAYS=1 timeout 3000 /venv/bin/python run.py $chk $extra --no-evidence 2>&1 | grep -v "^  " | tail -12
