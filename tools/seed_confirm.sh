#!/bin/bash
# tools/seed_confirm.sh <worktree-name> <PROPERTY> <check> <runs> <seed-id>
# Confirms a sub-agent's breaking change (demo fails with / passes without, suite unchanged), stores it under
# /verif/seeded/<seed-id>/ and runs the registered check against /repo with the patch applied, then reverts /repo.
set -u
name=$1; prop=$2; chk=$3; runs=$4; sid=$5
wt=/tmp/wt-$name
out=/verif/seeded/$sid
mkdir -p $out
cd $wt || exit 2
git diff > $out/patch.diff
cp mutant_demo.py $out/demo.py
PP="PYTHONPATH=$wt/src/main/python"
env $PP /venv/bin/python mutant_demo.py > $out/demo_with_change.txt 2>&1; rc_with=$?
git diff > /dev/shm/seed_confirm.patch; git checkout -q -- .
env $PP /venv/bin/python mutant_demo.py > $out/demo_without_change.txt 2>&1; rc_without=$?
git apply /dev/shm/seed_confirm.patch
suite=$(env $PP /venv/bin/python -m pytest -q -p no:cacheprovider src/test/python 2>&1 | tail -1)
# registered check against /repo with the patch applied (or, with SEED_COPY=1, against a scratch worktree of /repo's
# HEAD with the patch applied - used while a background soak is reading /repo itself)
cd /verif
if [ -n "${SEED_COPY:-}" ]; then
  cp=/tmp/wt-confirm-$$
  git -C /repo worktree add -q --detach $cp HEAD || exit 2
  git -C $cp apply $out/patch.diff || { echo "patch does not apply to HEAD"; git -C /repo worktree remove --force $cp; exit 2; }
  VERIF_REPO=$cp VERIF_KEEP_REPLAYS=1 /venv/bin/python run.py $chk --runs $runs --no-evidence > $out/check_output.txt 2>&1; rc_check=$?
  git -C /repo worktree remove --force $cp
else
  git -C /repo apply $out/patch.diff || { echo "patch does not apply to /repo"; exit 2; }
  VERIF_KEEP_REPLAYS=1 /venv/bin/python run.py $chk --runs $runs --no-evidence > $out/check_output.txt 2>&1; rc_check=$?
  git -C /repo checkout -- .
  git -C /repo status --short | grep -v '^??' | head -3
fi
grep -c "^VIOLATION" $out/check_output.txt > /dev/null
/venv/bin/python - "$out" "$wt" "$prop" "$chk" "$runs" "$rc_with" "$rc_without" "$suite" "$rc_check" <<'PY'
import json, sys, re
out, wt, prop, chk, runs, rc_with, rc_without, suite, rc_check = sys.argv[1:]
agent = json.load(open(wt + '/mutant_meta.json'))
co = open(out + '/check_output.txt').read()
sigs = re.findall(r'^violation signature=(.*?) occurrences=(\d+)', co, flags=re.M)
meta = {
  "property": prop,
  "written_by": "independent sub-agent given only the property text and a scratch worktree",
  "summary": agent.get("summary"), "needs": agent.get("needs"), "files_changed": agent.get("files_changed"),
  "agent_tests_run": agent.get("tests_run"),
  "confirmed_by_me": {
    "demo_exit_with_change": int(rc_with), "demo_exit_without_change": int(rc_without),
    "test_suite_with_change": suite.strip(),
    "check_command": ("git -C /repo apply patch.diff; /venv/bin/python /verif/run.py %s --runs %s --no-evidence; git -C /repo checkout -- ." % (chk, runs)) if not __import__("os").environ.get("SEED_COPY") else ("scratch worktree of /repo HEAD with patch.diff applied; VERIF_REPO=<it> /venv/bin/python /verif/run.py %s --runs %s --no-evidence" % (chk, runs)),
    "check_exit": int(rc_check), "violation_signatures": [{"signature": s, "occurrences": int(n)} for s, n in sigs],
  },
  "caught": int(rc_check) == 1 and bool(sigs),
}
json.dump(meta, open(out + '/meta.json', 'w'), indent=1)
print(out, 'demo with/without:', rc_with, rc_without, '| suite:', suite.strip(), '| check exit', rc_check, '|', sigs[:3])
PY
rm -f $out/demo_with_change.txt.tmp
