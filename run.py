#!/venv/bin/python
"""Entry point: /venv/bin/python /verif/run.py <check> [--tier quick|thorough] [--replay FILE]

Loading checks through this file (not `python -m checks.x`) keeps every check module imported
exactly once under one name."""
import os
import sys

HERE = os.path.dirname(os.path.abspath(__file__))
if HERE not in sys.path:
  sys.path.insert(0, HERE)

from sim import driver  # noqa: E402

if __name__ == "__main__":
  sys.exit(driver.main(sys.argv[1:]))
