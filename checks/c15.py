"""C15 - the canonical model stays a well-formed tree under any sequence of API calls.

Simulation: a seeded history of model API calls (about 40 % built to be illegal = the fault
dimension) over two documents and a pool of elements of every kind. After *every* call:

  * rejected single-element operation  -> deep fingerprint of the whole universe unchanged;
  * always                             -> global well-formedness invariants computed from
                                          public getters only, with bounded (cycle-safe) walks;
  * stored style / animation / initial values are never ones that the generator tagged
    invalid for that property (tags come from TTML value types, not from the SUT's validate).

The oracle never predicts accept/reject and never demands that an accepted call has an
effect: the statement of C15 does not.
"""
from fractions import Fraction

from sim import core, shrink as shr

core.ensure_repo_on_path()

import ttconv.model as m  # noqa: E402
import ttconv.style_properties as sp  # noqa: E402

ID = "C15"
LEVEL = "exploration"
SOFT_TIMEOUT = 3
TIERS = {
  "quick": {"runs": 24000, "hard_timeout": 40, "shrink_budget": 15, "shrink_total": 150, "det_sample": 48},
  "thorough": {"runs": 3000000, "hard_timeout": 60, "shrink_budget": 60, "shrink_total": 600, "det_sample": 512},
}

KINDS = ["Body", "Div", "P", "Span", "Br", "Text", "Ruby", "Rb", "Rt", "Rp", "Rbc", "Rtc", "Region"]
CLS = {k: getattr(m, k) for k in KINDS}

# content model from doc/data_model.md
ALLOWED = {
  "Body": {"Div"}, "Div": {"P", "Div"}, "P": {"Span", "Ruby", "Br"}, "Span": {"Span", "Br", "Text"},
  "Br": set(), "Text": set(), "Region": set(), "Rbc": {"Rb"}, "Rb": {"Span"}, "Rt": {"Span"}, "Rp": {"Span"},
}
RUBY_OK = [[], ["Rb"], ["Rt"], ["Rb", "Rt"], ["Rp", "Rp"], ["Rb", "Rp", "Rp"], ["Rp", "Rt", "Rp"], ["Rb", "Rp", "Rt", "Rp"],
           ["Rbc", "Rtc"], ["Rbc", "Rtc", "Rtc"]]
RUBY_PATTERNS = [["Rb", "Rt"], ["Rb", "Rp", "Rt", "Rp"], ["Rbc", "Rtc"], ["Rbc", "Rtc", "Rtc"]]
RUBY_NEAR = [["Rb"], ["Rt", "Rb"], ["Rb", "Rt", "Rt"], ["Rbc"], ["Rbc", "Rtc", "Rtc", "Rtc"], ["Rb", "Rp", "Rt"], ["Rtc", "Rbc"], ["Rb", "Rtc"]]


def rtc_ok(kinds):
  """Rt* or a prefix of Rp Rt* Rp (the API builds it one child at a time)."""
  if all(k == "Rt" for k in kinds):
    return True
  if kinds and kinds[0] == "Rp":
    rest = kinds[1:]
    if rest and rest[-1] == "Rp":
      rest = rest[:-1]
    return all(k == "Rt" for k in rest)
  return False


class _Opaque:
  def __repr__(self):
    return "<opaque>"


L = sp.LengthType
U = sp.LengthType.Units
_RED = sp.ColorType((255, 0, 0, 255))

# name -> value
VALUES = {
  "red": _RED,
  "transparent": sp.NamedColors.transparent.value,
  "rtl": sp.DirectionType.rtl,
  "len_pct": L(10, U.pct),
  "len_c": L(1, U.c),
  "len_em": L(1, U.em),
  "len_rh": L(2, U.rh),
  "disp_none": sp.DisplayType.none,
  "da_center": sp.DisplayAlignType.center,
  "extent_pct": sp.ExtentType(height=L(50, U.pct), width=L(50, U.pct)),
  "extent_em": sp.ExtentType(height=L(1, U.em), width=L(1, U.em)),
  "extent_swapped": sp.ExtentType(height=L(1, U.rw), width=L(1, U.rh)),
  "true": True,
  "ff_ok": ("Arial", sp.GenericFontFamilyType.serif),
  "ff_bad_item": ("a", 3),
  "ff_none_item": ("a", None),
  "ff_int_only": (7,),
  "ff_nested": (("a",),),
  "ff_empty": (),
  "ff_list": ["a"],
  "half": 0.5,
  "int": 42,
  "fs_italic": sp.FontStyleType.italic,
  "fw_bold": sp.FontWeightType.bold,
  "normal": sp.SpecialValues.normal,
  "none": sp.SpecialValues.none,
  "mra_center": sp.MultiRowAlignType.center,
  "origin_pct": sp.CoordinateType(x=L(10, U.pct), y=L(10, U.pct)),
  "origin_em": sp.CoordinateType(x=L(1, U.em), y=L(1, U.em)),
  "overflow_visible": sp.OverflowType.visible,
  "padding": sp.PaddingType(),
  "pos_pct": sp.PositionType(h_offset=L(1, U.pct), v_offset=L(1, U.pct)),
  "pos_em": sp.PositionType(h_offset=L(1, U.em), v_offset=L(1, U.em)),
  # em on one axis only (documented-invalid as well: the other axis uses a listed unit)
  "pos_em_rh": sp.PositionType(h_offset=L(1, U.em), v_offset=L(1, U.rh)),
  "pos_rw_em": sp.PositionType(h_offset=L(1, U.rw), v_offset=L(1, U.em)),
  "origin_em_rh": sp.CoordinateType(x=L(1, U.em), y=L(1, U.rh)),
  "origin_rw_em": sp.CoordinateType(x=L(1, U.rw), y=L(1, U.em)),
  "origin_em_pct": sp.CoordinateType(x=L(1, U.em), y=L(1, U.pct)),
  "extent_em_rh": sp.ExtentType(height=L(1, U.rh), width=L(1, U.em)),
  "extent_rw_em": sp.ExtentType(height=L(1, U.em), width=L(1, U.rw)),
  "extent_px_em": sp.ExtentType(height=L(1, U.em), width=L(1, U.px)),
  "ra_space": sp.RubyAlignType.spaceAround,
  "ap_before": sp.AnnotationPositionType.before,
  "rr": sp.RubyReserveType(),
  "sb_when": sp.ShowBackgroundType.whenActive,
  "ta_center": sp.TextAlignType.center,
  "tc_all": sp.TextCombineType.all,
  "td_under": sp.TextDecorationType(underline=True),
  "te": sp.TextEmphasisType(),
  "to": sp.TextOutlineType(L(5, U.pct)),
  "ts": sp.TextShadowType((sp.TextShadowType.Shadow(L(1, U.pct), L(1, U.pct)),)),
  "ub_embed": sp.UnicodeBidiType.embed,
  "vis_hidden": sp.VisibilityType.hidden,
  "wrap_no": sp.WrapOptionType.noWrap,
  "wm_tbrl": sp.WritingModeType.tbrl,
  "str": "foo",
  "opaque": _Opaque(),
  "dict": {"a": 1},
}
VALUE_NAMES = sorted(VALUES)
_NAME_OF_ID = {id(v): k for k, v in VALUES.items()}

P_ = sp.StyleProperties
PROPS = {p.__name__: p for p in P_.ALL}
PROP_NAMES = sorted(PROPS)

# values valid for a property according to TTML2 / IMSC value types
VALID = {
  "BackgroundColor": {"red", "transparent"}, "Color": {"red", "transparent"},
  "Direction": {"rtl"}, "Disparity": {"len_pct", "len_c", "len_em", "len_rh"},
  "Display": {"disp_none"}, "DisplayAlign": {"da_center"}, "Extent": {"extent_pct"},
  "FillLineGap": {"true"}, "FontFamily": {"ff_ok"}, "FontSize": {"len_pct", "len_c", "len_em", "len_rh"},
  "FontStyle": {"fs_italic"}, "FontWeight": {"fw_bold"}, "LineHeight": {"normal", "len_pct", "len_c", "len_em", "len_rh"},
  "LinePadding": {"len_c", "len_rh"}, "LuminanceGain": {"half", "int"}, "MultiRowAlign": {"mra_center"},
  "Opacity": {"half", "int"}, "Origin": {"origin_pct"}, "Overflow": {"overflow_visible"}, "Padding": {"padding"},
  "Position": {"pos_pct"}, "RubyAlign": {"ra_space"}, "RubyPosition": {"ap_before"}, "RubyReserve": {"none", "rr"},
  "Shear": {"half", "int"}, "ShowBackground": {"sb_when"}, "TextAlign": {"ta_center"}, "TextCombine": {"tc_all"},
  "TextDecoration": {"td_under"}, "TextEmphasis": {"none", "te"}, "TextOutline": {"none", "to"}, "TextShadow": {"none", "ts"},
  "UnicodeBidi": {"ub_embed"}, "Visibility": {"vis_hidden"}, "WrapOption": {"wrap_no"}, "WritingMode": {"wm_tbrl"},
}
# neither valid nor unambiguously invalid: never judged
UNJUDGED = {
  "LuminanceGain": {"true"}, "Opacity": {"true"}, "Shear": {"true"},  # bool is a numbers.Number in Python
  "FontFamily": {"ff_empty", "ff_list"},
  "Disparity": set(), "LinePadding": {"len_pct", "len_em"},  # unit restrictions of ebutts:linePadding: judged only as valid/unjudged
  # doc/data_model.md: "Extent, origin and position lengths can be expressed in c, %, rh, rw and px units" - em is
  # therefore judged invalid; which of rw / rh goes with which axis is not documented and stays unjudged
  "Extent": {"extent_swapped"}, "Origin": set(), "Position": set(),
}


def is_invalid(prop_name, value_name):
  if prop_name not in VALID:
    return False
  return value_name not in VALID[prop_name] and value_name not in UNJUDGED.get(prop_name, ())


def value_name(v):
  n = _NAME_OF_ID.get(id(v))
  if n is not None:
    return n
  for k, x in VALUES.items():
    try:
      if type(x) is type(v) and x == v:
        return k
    except Exception:
      pass
  return "?" + type(v).__name__ + ":" + repr(v)


BAD_PROPS = ["!none", "!str", "!base"]


def prop_of(name):
  if name == "!none":
    return None
  if name == "!str":
    return "Color"
  if name == "!base":
    return sp.StyleProperty
  return PROPS[name]


SINGLE_OPS = {"push_child", "remove", "remove_child", "set_region", "put_region", "remove_region", "set_body",
              "set_style", "add_anim", "put_initial"}
ALL_OPS = ["push_child", "push_children", "remove", "remove_child", "remove_children", "set_doc", "set_region",
           "put_region", "remove_region", "set_body", "set_style", "add_anim", "put_initial", "copy_to"]


class Universe:
  """Two documents + the pool, built from knobs."""

  def __init__(self, knobs):
    self.docs = [m.ContentDocument(), m.ContentDocument()]
    self.pool = []
    self.kinds = []
    for kind, d, extra in knobs["pool"]:
      doc = None if d is None else self.docs[d]
      if kind == "Region":
        e = m.Region(extra, doc)
      elif kind == "Text":
        e = m.Text(doc, extra)
      else:
        e = CLS[kind](doc)
      self.pool.append(e)
      self.kinds.append(kind)
    self.n = len(self.pool)
    self.idx = {id(e): i for i, e in enumerate(self.pool)}
    self.didx = {id(d): i for i, d in enumerate(self.docs)}

  def ix(self, e):
    if e is None:
      return None
    i = self.idx.get(id(e))
    return i if i is not None else "?" + type(e).__name__

  def dx(self, d):
    if d is None:
      return None
    i = self.didx.get(id(d))
    return i if i is not None else "?" + type(d).__name__

  def children(self, e):
    """Bounded walk over the sibling list; None if it does not end."""
    out = []
    c = e.first_child()
    while c is not None:
      out.append(c)
      if len(out) > self.n + 1:
        return None
      c = c.next_sibling()
    return out

  # ---------------------------------------------------------------- fingerprint
  def fp_element(self, e):
    ch = self.children(e)
    styles = [(p.__name__ if isinstance(p, type) else repr(p), value_name(e.get_style(p))) for p in e.iter_styles()]
    anims = [(a.style_property.__name__, str(a.begin), str(a.end), value_name(a.value)) for a in e.iter_animation_steps()]
    return (
      self.dx(e.get_doc()), self.ix(e.parent()), None if ch is None else [self.ix(c) for c in ch],
      self.ix(e.first_child()), self.ix(e.last_child()), self.ix(e.previous_sibling()), self.ix(e.next_sibling()),
      self.ix(e.get_region()), str(e.get_begin()), str(e.get_end()), e.get_id(), e.get_lang(), e.get_space().name,
      styles, anims, e.get_text() if isinstance(e, m.Text) else None,
    )

  def fp_doc(self, d):
    return (
      [(r.get_id(), self.ix(r)) for r in d.iter_regions()], self.ix(d.get_body()),
      [(p.__name__, value_name(v)) for p, v in d.iter_initial_values()], d.get_lang(),
    )

  def fingerprint(self):
    return core.canon([[self.fp_doc(d) for d in self.docs], [self.fp_element(e) for e in self.pool]])

  # ---------------------------------------------------------------- invariants
  def check_invariants(self, stats):
    n = self.n
    pool = self.pool
    kinds = self.kinds
    ch = []
    for i, e in enumerate(pool):
      c = self.children(e)
      if c is None:
        raise core.Violation("inv.sibling-cycle", kinds[i] + " " + "sibling list of element %d does not end" % i)
      ch.append(c)
    owner = {}
    for i, e in enumerate(pool):
      c = ch[i]
      if len(e) != len(c):
        raise core.Violation("inv.len-mismatch", kinds[i] + " " + "len(e%d)=%d but %d children by walking" % (i, len(e), len(c)))
      if e.has_children() != bool(c):
        raise core.Violation("inv.has_children-mismatch", kinds[i] + " " + "e%d" % i)
      if e.first_child() is not (c[0] if c else None):
        raise core.Violation("inv.first-child-mismatch", kinds[i] + " " + "e%d" % i)
      if e.last_child() is not (c[-1] if c else None):
        raise core.Violation("inv.last-child-mismatch", kinds[i] + " " + "e%d: last_child=%s children=%s" % (i, self.ix(e.last_child()), [self.ix(x) for x in c]))
      for k, x in enumerate(c):
        j = self.idx.get(id(x))
        if j is None:
          raise core.Violation("inv.foreign-child", kinds[i] + " " + "e%d has a child that is not in the universe" % i)
        if j in owner:
          raise core.Violation("inv.two-parents", kinds[j] + " " + "e%d is in the child lists of e%d and e%d" % (j, owner[j], i))
        owner[j] = i
        if x.parent() is not e:
          raise core.Violation("inv.parent-link", kinds[j] + " " + "e%d is a child of e%d but parent()=%s" % (j, i, self.ix(x.parent())))
        if x.previous_sibling() is not (c[k - 1] if k > 0 else None):
          raise core.Violation("inv.prev-sibling-link", kinds[j] + " " + "e%d under e%d" % (j, i))
        if x.next_sibling() is not (c[k + 1] if k + 1 < len(c) else None):
          raise core.Violation("inv.next-sibling-link", kinds[j] + " " + "e%d under e%d" % (j, i))
        if x.get_doc() is not e.get_doc():
          raise core.Violation("inv.mixed-documents",
                               "%s e%d (doc %s) has child %s e%d (doc %s)" % (kinds[i], i, self.dx(e.get_doc()), kinds[j], j, self.dx(x.get_doc())))
      ck = [kinds[self.idx[id(x)]] for x in c]
      k = kinds[i]
      if k == "Ruby":
        ok = ck in RUBY_OK
      elif k == "Rtc":
        ok = rtc_ok(ck)
      else:
        ok = all(x in ALLOWED[k] for x in ck)
      if not ok:
        raise core.Violation("inv.content-model:%s" % k, "e%d has children [%s]" % (i, ",".join(ck)))
    for i, e in enumerate(pool):
      p = e.parent()
      if i in owner:
        continue
      if p is not None:
        raise core.Violation("inv.orphan-with-parent", kinds[i] + " " + "e%d.parent()=%s but it is in no child list" % (i, self.ix(p)))
      if e.previous_sibling() is not None or e.next_sibling() is not None:
        raise core.Violation("inv.root-with-sibling", kinds[i] + " " + "e%d" % i)
    # acyclic
    for i, e in enumerate(pool):
      p = e
      steps = 0
      while p is not None:
        p = p.parent()
        steps += 1
        if steps > n + 1:
          raise core.Violation("inv.cycle", kinds[i] + " " + "parent chain of e%d does not end" % i)
    # (safe now) derived getters agree with the child lists
    def walk(j, acc):
      acc.append(j)
      for x in ch[j]:
        walk(self.idx[id(x)], acc)
      return acc
    for i, e in enumerate(pool):
      r = e.root()
      if r.parent() is not None:
        raise core.Violation("inv.root-not-root", kinds[i] + " " + "e%d" % i)
      if [self.idx.get(id(x)) for x in e] != [self.idx[id(x)] for x in ch[i]]:
        raise core.Violation("inv.iter-mismatch", kinds[i] + " e%d: iteration differs from the sibling walk" % i)
      for k_, x in enumerate(ch[i]):
        if e[k_] is not x:
          raise core.Violation("inv.getitem-mismatch", kinds[i] + " e%d[%d]" % (i, k_))
      if e.parent() is None or not ch[i]:
        got = []
        for x in e.dfs_iterator():
          got.append(self.idx.get(id(x)))
          if len(got) > n + 1:
            break
        if got != walk(i, []):
          raise core.Violation("inv.dfs-mismatch", kinds[i] + " e%d: dfs_iterator gives %s, child lists give %s" % (i, got, walk(i, [])))
    # documents
    for di, d in enumerate(self.docs):
      b = d.get_body()
      if b is not None:
        if not isinstance(b, m.Body) or b.parent() is not None:
          raise core.Violation("inv.body-not-root-body", "doc %d body=%s" % (di, self.ix(b)))
        if b.get_doc() is not d:
          raise core.Violation("inv.body-foreign-doc", "doc %d body e%s belongs to doc %s" % (di, self.ix(b), self.dx(b.get_doc())))
      for r in d.iter_regions():
        if not isinstance(r, m.Region):
          raise core.Violation("inv.registry-non-region", "doc %d" % di)
        if d.get_region(r.get_id()) is not r:
          raise core.Violation("inv.registry-id-mismatch", "doc %d region %s" % (di, r.get_id()))
        if r.get_doc() is not d:
          raise core.Violation("inv.registered-region-foreign-doc", "doc %d registers region e%s which belongs to doc %s" % (di, self.ix(r), self.dx(r.get_doc())))
      # region references of every element reachable from the document
      if b is not None and isinstance(b, m.Body):
        for e in b.dfs_iterator():
          r = e.get_region()
          if r is None:
            continue
          i = self.ix(e)
          ed = e.get_doc()
          if ed is None:
            raise core.Violation("inv.region-ref-without-doc", type(e).__name__ + " e%s references region %s but has no document" % (i, self.ix(r)))
          if ed.get_region(r.get_id()) is not r:
            raise core.Violation("inv.dangling-region-ref",
                                 type(e).__name__ + " e%s references region e%s (id %s) which is not the region registered under that id in its document" % (i, self.ix(r), r.get_id()))
      for p, v in d.iter_initial_values():
        if is_invalid(getattr(p, "__name__", "?"), value_name(v)):
          raise core.Violation("inv.invalid-initial-value:%s" % p.__name__, "doc %d holds %s" % (di, value_name(v)))
    for i, e in enumerate(pool):
      r = e.get_region()
      if r is not None:
        ed = e.get_doc()
        if ed is None or ed.get_region(r.get_id()) is not r:
          stats.count("probe.stale_region_ref_outside_document_tree")
      for p in e.iter_styles():
        vn = value_name(e.get_style(p))
        if is_invalid(getattr(p, "__name__", "?"), vn):
          raise core.Violation("inv.invalid-style-value:%s" % p.__name__, "e%d holds %s" % (i, vn))
      for a in e.iter_animation_steps():
        vn = value_name(a.value)
        if is_invalid(a.style_property.__name__, vn):
          raise core.Violation("inv.invalid-animation-value:%s" % a.style_property.__name__, "e%d holds %s" % (i, vn))

  def state_shape(self):
    """Abstract state used for the distinct-state measure."""
    out = []
    for i, e in enumerate(self.pool):
      out.append((self.kinds[i], self.dx(e.get_doc()), self.ix(e.parent()), self.ix(e.get_region()), len(list(e.iter_styles()))))
    return (out, [[r.get_id() for r in d.iter_regions()] for d in self.docs], [self.ix(d.get_body()) for d in self.docs])


# -------------------------------------------------------------------- generation

def gen_knobs(rng):
  n = rng.randint(4, 14)
  flavour = rng.choice(["general", "general", "ruby", "region", "deep"])
  weights = {k: 1.0 for k in KINDS}
  if flavour == "ruby":
    for k in ("Ruby", "Rb", "Rt", "Rp", "Rbc", "Rtc", "P", "Span"):
      weights[k] = 3.0
  elif flavour == "region":
    weights["Region"] = 5.0
    weights["Body"] = 2.0
    weights["Div"] = 3.0
    weights["P"] = 2.0
  elif flavour == "deep":
    for k in ("Body", "Div", "P", "Span"):
      weights[k] = 4.0
  main_doc = rng.choice([0, 0, 1])
  pool = []
  for _ in range(n):
    kind = rng.choices(KINDS, [weights[k] for k in KINDS])[0]
    d = rng.choices([main_doc, 1 - main_doc, None], [0.7, 0.15, 0.15])[0]
    extra = None
    if kind == "Region":
      extra = rng.choice(["r1", "r1", "r2"])
    elif kind == "Text":
      extra = rng.choice(["", "x", " a b "])
    pool.append([kind, d, extra])
  enabled = [o for o in ALL_OPS if rng.random() < 0.8]
  if len(enabled) < 3:
    enabled = list(ALL_OPS)
  opw = {o: rng.choice([0.5, 1, 1, 2, 4]) for o in enabled}
  if flavour == "region":
    for o in ("put_region", "remove_region", "set_region", "set_body"):
      opw[o] = opw.get(o, 1) * 3
      if o not in enabled:
        enabled.append(o)
  return {"pool": pool, "nops": rng.randint(3, 60), "ops_enabled": sorted(enabled), "weights": {o: opw[o] for o in sorted(opw)},
          "illegal_bias": rng.choice([0.15, 0.4, 0.4, 0.7]), "flavour": flavour}


def _legal_child_candidates(u, pi):
  pk = u.kinds[pi]
  p = u.pool[pi]
  allowed = ALLOWED.get(pk, {"Rt", "Rp"} if pk == "Rtc" else set())
  return [j for j in range(u.n) if u.kinds[j] in allowed and u.pool[j].parent() is None and u.pool[j].get_doc() is p.get_doc() and j != pi
          and u.pool[pi].root() is not u.pool[j]]


def _ancestors(u, i):
  out = []
  p = u.pool[i].parent()
  while p is not None:
    out.append(u.idx[id(p)])
    p = p.parent()
  return out


def _descendants(u, i):
  return [u.idx[id(x)] for x in u.pool[i].dfs_iterator()][1:]


def gen_op(rng, u, knobs, stats):
  kind = rng.choices(knobs["ops_enabled"], [knobs["weights"][o] for o in knobs["ops_enabled"]])[0]
  n = u.n
  illegal = rng.random() < knobs["illegal_bias"]
  anyi = lambda: rng.randrange(n)  # noqa: E731
  of_kind = lambda ks: [j for j in range(n) if u.kinds[j] in ks]  # noqa: E731

  if kind == "push_child":
    p = anyi()
    if not illegal:
      cands = _legal_child_candidates(u, p)
      if not cands:
        # pick a parent that has some
        order = list(range(n))
        rng.shuffle(order)
        for q in order:
          cands = _legal_child_candidates(u, q)
          if cands:
            p = q
            break
      c = rng.choice(cands) if cands else anyi()
    else:
      rel = rng.choice(["self", "ancestor", "descendant", "parented", "otherdoc", "random", "root-of-self"])
      pool = {"self": [p], "ancestor": _ancestors(u, p), "descendant": _descendants(u, p),
              "parented": [j for j in range(n) if u.pool[j].parent() is not None],
              "otherdoc": [j for j in range(n) if u.pool[j].get_doc() is not u.pool[p].get_doc()],
              "random": list(range(n)), "root-of-self": [u.idx[id(u.pool[p].root())]]}[rel]
      c = rng.choice(pool) if pool else anyi()
      stats.count("probe.illegal_arg." + rel)
    return ["push_child", p, c]

  if kind == "push_children":
    rubies = of_kind({"Ruby"})
    rtcs = of_kind({"Rtc"})
    if rubies and rng.random() < 0.5:
      p = rng.choice(rubies)
      pattern = rng.choice(RUBY_PATTERNS if not illegal else RUBY_NEAR)
      cs = []
      used = set()
      for k in pattern:
        cands = [j for j in of_kind({k}) if j not in used and (illegal or (u.pool[j].parent() is None and u.pool[j].get_doc() is u.pool[p].get_doc()))]
        if not cands:
          cands = [j for j in of_kind({k}) if j not in used] or [anyi()]
        j = rng.choice(cands)
        used.add(j)
        cs.append(j)
      if illegal:
        stats.count("probe.ruby_near_miss")
    elif rtcs and rng.random() < 0.5:
      p = rng.choice(rtcs)
      pattern = rng.choice([["Rt"], ["Rt", "Rt"], ["Rp", "Rt", "Rp"], ["Rp", "Rt", "Rt", "Rp"]] if not illegal else
                           [["Rp"], ["Rp", "Rp"], ["Rt", "Rp"], ["Rp", "Rt"], ["Rp", "Rt", "Rp"], ["Rt", "Rp", "Rt"]])
      cs = []
      used = set()
      for k in pattern:
        cands = [j for j in of_kind({k}) if j not in used and (u.pool[j].parent() is None and u.pool[j].get_doc() is u.pool[p].get_doc())]
        if not cands:
          cands = [j for j in of_kind({k}) if j not in used] or [anyi()]
        j = rng.choice(cands)
        used.add(j)
        cs.append(j)
    else:
      p = anyi()
      cands = _legal_child_candidates(u, p)
      k = rng.randint(0, 4)
      if cands and not illegal:
        rng.shuffle(cands)
        cs = cands[:k]
      else:
        cs = [anyi() for _ in range(k)]
    as_iter = rng.random() < 0.25
    if as_iter:
      stats.count("probe.iterator_argument")
    return ["push_children", p, cs, as_iter]

  if kind == "remove":
    parented = [j for j in range(n) if u.pool[j].parent() is not None]
    return ["remove", rng.choice(parented) if parented and rng.random() < 0.8 else anyi()]

  if kind == "remove_child":
    parents = [j for j in range(n) if u.pool[j].has_children()]
    if parents and not illegal:
      p = rng.choice(parents)
      c = u.idx[id(rng.choice(u.children(u.pool[p])))]
    else:
      p, c = anyi(), anyi()
    return ["remove_child", p, c]

  if kind == "remove_children":
    parents = [j for j in range(n) if u.pool[j].has_children()]
    return ["remove_children", rng.choice(parents) if parents and rng.random() < 0.8 else anyi()]

  if kind == "set_doc":
    e = anyi()
    if rng.random() < 0.5:
      roots = [j for j in range(n) if u.pool[j].parent() is None]
      e = rng.choice(roots)
    if u.pool[e].has_children():
      stats.count("probe.set_doc_on_non_leaf")
    return ["set_doc", e, rng.choice([0, 1, None, None])]

  if kind == "set_region":
    regs = of_kind({"Region"})
    e = anyi()
    if rng.random() < 0.6:
      attached = [j for j in range(n) if u.kinds[j] not in ("Region", "Br", "Text") and u.pool[j].get_doc() is not None]
      if attached:
        e = rng.choice(attached)
    r = None
    if regs and rng.random() < 0.85:
      d = u.pool[e].get_doc()
      registered = [j for j in regs if d is not None and d.get_region(u.pool[j].get_id()) is u.pool[j]]
      if registered and not illegal:
        r = rng.choice(registered)
      else:
        r = rng.choice(regs)
    elif illegal:
      r = anyi()
    return ["set_region", e, r]

  if kind == "put_region":
    regs = of_kind({"Region"})
    d = rng.choice([0, 1])
    if regs and not illegal:
      mine = [j for j in regs if u.pool[j].get_doc() is u.docs[d]]
      r = rng.choice(mine or regs)
    else:
      r = rng.choice(regs) if regs and rng.random() < 0.6 else anyi()
    if u.kinds[r] == "Region":
      old = u.docs[d].get_region(u.pool[r].get_id())
      if old is not None and old is not u.pool[r]:
        stats.count("probe.put_region_replaces_other_object")
    return ["put_region", d, r]

  if kind == "remove_region":
    d = rng.choice([0, 1])
    rid = rng.choice(["r1", "r1", "r2", "nope"])
    reg = u.docs[d].get_region(rid)
    if reg is not None and any(e.get_region() is reg for e in u.pool):
      stats.count("probe.remove_region_while_referenced")
    return ["remove_region", d, rid]

  if kind == "set_body":
    d = rng.choice([0, 1])
    bodies = of_kind({"Body"})
    if rng.random() < 0.12:
      return ["set_body", d, None]
    if bodies and not illegal:
      mine = [j for j in bodies if u.pool[j].get_doc() is u.docs[d]]
      return ["set_body", d, rng.choice(mine or bodies)]
    return ["set_body", d, rng.choice(bodies) if bodies and rng.random() < 0.5 else anyi()]

  if kind in ("set_style", "add_anim", "put_initial"):
    if illegal and rng.random() < 0.15:
      pn = rng.choice(BAD_PROPS)
      vn = rng.choice(VALUE_NAMES)
    else:
      pn = rng.choice(PROP_NAMES)
      if illegal:
        vn = rng.choice(VALUE_NAMES)
        if pn in ("Extent", "Origin", "Position") and rng.random() < 0.6:
          vn = rng.choice([v for v in VALUE_NAMES if v.startswith({"Extent": "extent_", "Origin": "origin_", "Position": "pos_"}[pn])])
        if pn == "FontFamily" and rng.random() < 0.6:
          vn = rng.choice(["ff_bad_item", "ff_none_item", "ff_int_only", "ff_nested", "ff_list"])
          stats.count("probe.font_family_bad_item")
      else:
        vn = rng.choice(sorted(VALID[pn]))
    if rng.random() < 0.08:
      vn = None
    if kind == "set_style":
      return ["set_style", anyi(), pn, vn]
    if kind == "put_initial":
      return ["put_initial", rng.choice([0, 1]), pn, vn]
    b = rng.choice([None, "0", "1/2", "3"])
    e_ = rng.choice([None, "1", "7/2"])
    return ["add_anim", anyi(), pn, vn, b, e_]

  if kind == "copy_to":
    s = anyi()
    if illegal:
      d = anyi()
    else:
      same = [j for j in range(n) if u.kinds[j] == u.kinds[s]]
      d = rng.choice(same)
    return ["copy_to", s, d]

  raise core.HarnessError("unknown op kind " + kind)


def frac(s):
  return None if s is None else Fraction(s)


def apply_op(u, op):
  """Executes one op against the real model. Exceptions from the SUT propagate."""
  k = op[0]
  P = u.pool
  if k == "push_child":
    P[op[1]].push_child(P[op[2]])
  elif k == "push_children":
    cs = [P[j] for j in op[2]]
    P[op[1]].push_children(iter(cs) if op[3] else cs)
  elif k == "remove":
    P[op[1]].remove()
  elif k == "remove_child":
    P[op[1]].remove_child(P[op[2]])
  elif k == "remove_children":
    P[op[1]].remove_children()
  elif k == "set_doc":
    P[op[1]].set_doc(None if op[2] is None else u.docs[op[2]])
  elif k == "set_region":
    P[op[1]].set_region(None if op[2] is None else P[op[2]])
  elif k == "put_region":
    u.docs[op[1]].put_region(P[op[2]])
  elif k == "remove_region":
    u.docs[op[1]].remove_region(op[2])
  elif k == "set_body":
    u.docs[op[1]].set_body(None if op[2] is None else P[op[2]])
  elif k == "set_style":
    P[op[1]].set_style(prop_of(op[2]), None if op[3] is None else VALUES[op[3]])
  elif k == "put_initial":
    u.docs[op[1]].put_initial_value(prop_of(op[2]), None if op[3] is None else VALUES[op[3]])
  elif k == "add_anim":
    step = m.DiscreteAnimationStep(prop_of(op[2]), frac(op[4]), frac(op[5]), None if op[3] is None else VALUES[op[3]])
    P[op[1]].add_animation_step(step)
  elif k == "copy_to":
    P[op[1]].copy_to(P[op[2]])
  else:
    raise core.HarnessError("unknown op " + str(op))


def is_single(u, op):
  k = op[0]
  if k in SINGLE_OPS:
    return True
  if k == "set_doc":
    return not u.pool[op[1]].has_children()
  return False


def op_valid_for(op, n):
  """Replay/shrink guard: indices within the pool."""
  def ok(i):
    return i is None or (isinstance(i, int) and 0 <= i < n)
  k = op[0]
  if k in ("push_child", "remove_child", "copy_to"):
    return ok(op[1]) and ok(op[2]) and op[1] is not None and op[2] is not None
  if k == "push_children":
    return ok(op[1]) and all(ok(j) and j is not None for j in op[2])
  if k in ("remove", "remove_children", "set_doc", "set_style", "add_anim"):
    return ok(op[1]) and op[1] is not None
  if k == "set_region":
    return ok(op[1]) and op[1] is not None and ok(op[2])
  if k == "put_region":
    return ok(op[2]) and op[2] is not None
  if k == "set_body":
    return ok(op[2])
  return True


def run_one(rng, case, stats, rec, log, ctx=None):
  if case is None:
    knobs = gen_knobs(rng)
  else:
    knobs = case["knobs"]
  rec.set_knobs(knobs)
  u = Universe(knobs)
  log.add("pool", knobs["pool"])
  u.check_invariants(stats)  # must hold initially, otherwise the harness is wrong
  nops = knobs["nops"] if case is None else len(case["ops"])
  for step in range(nops):
    if case is None:
      op = gen_op(rng, u, knobs, stats)
    else:
      op = case["ops"][step]
      if not op_valid_for(op, u.n):
        continue
    rec.op(op)
    single = is_single(u, op)
    before = u.fingerprint() if single else None
    outcome = "ok"
    try:
      apply_op(u, op)
    except core.HarnessError:
      raise
    except core.RunTimeout:
      raise
    except Exception as e:  # any exception = rejected call
      outcome = type(e).__name__
    stats.count("op." + op[0])
    stats.count("outcome." + ("accepted" if outcome == "ok" else "rejected"))
    if outcome != "ok":
      stats.count("fault.rejected_call." + op[0])
    try:
      if outcome != "ok" and single:
        after = u.fingerprint()
        if after != before:
          raise core.Violation("rejected-op-changed-model:%s:%s" % (op[0], outcome),
                               "op %s was rejected with %s but the model changed\nbefore=%s\nafter =%s" % (op, outcome, before, after))
      u.check_invariants(stats)
    except core.Violation as v:
      raise core.Violation(v.signature + "@" + op[0], "step %d op %s (%s): %s" % (step, op, outcome, v.detail))
    log.add(step, op, outcome)
    stats.seen("op_outcome", op[0], outcome)
    if step % 4 == 3 or step == nops - 1:
      shape = u.state_shape()
      stats.seen("state", shape)
      log.add("state", shape)
  log.add("final", u.fingerprint())


# -------------------------------------------------------------------- shrinking

def shrink(case, is_bad, deadline):
  knobs = dict(case["knobs"])
  ops = shr.ddmin(case["ops"], lambda o: is_bad({"knobs": knobs, "ops": o}), deadline)

  # drop unused pool tail elements / renumber is not attempted: indices stay stable
  def simpler(op):
    if op[0] == "push_children" and len(op[2]) > 1:
      for j in range(len(op[2])):
        yield [op[0], op[1], op[2][:j] + op[2][j + 1:], op[3]]
    if op[0] == "push_children" and op[3]:
      yield [op[0], op[1], op[2], False]
    if op[0] == "add_anim" and (op[4] is not None or op[5] is not None):
      yield [op[0], op[1], op[2], op[3], None, None]
  ops = shr.shrink_each(ops, simpler, lambda o: is_bad({"knobs": knobs, "ops": o}), deadline)
  # neutralise pool members that no op mentions (replace by a Br in no document)
  used = set()
  for op in ops:
    for x in op[1:3]:
      if isinstance(x, int):
        used.add(x)
      if isinstance(x, list):
        used.update(x)
  pool = [list(p) for p in knobs["pool"]]
  # trailing unused elements can be removed without renumbering
  while pool and (len(pool) - 1) not in used and len(pool) > 1:
    cand = dict(knobs, pool=pool[:-1])
    if is_bad({"knobs": cand, "ops": ops}):
      pool = pool[:-1]
      knobs = cand
    else:
      break
  return {"knobs": knobs, "ops": ops}


def sample_of(case):
  return {"pool": [p[0] + ("@d%s" % p[1] if p[1] is not None else "@-") for p in case["knobs"]["pool"]], "ops": case["ops"][:25]}


def describe():
  return {
    "rule": ("one evaluation = one seeded history of 3-60 model API calls (push_child, push_children, remove, remove_child, "
             "remove_children, set_doc, set_region, put_region, remove_region, set_body, set_style, add_animation_step, "
             "put_initial_value, copy_to) over 2 documents and a pool of 4-14 elements of all 13 kinds, with a per-run "
             "random subset/weighting of op kinds and 15-70 % of calls constructed to be illegal; invariants are evaluated "
             "after every call. A history counts as distinct and non-trivial per distinct abstract state reached "
             "(kind, document, parent, region reference, style count per pool element + region registries + bodies), "
             "sampled every 4th step, hashed; states with no parent link at all are included but the initial state is not "
             "sampled (first sample after 4 calls)."),
    "fault_note": 'the fault dimension is the rejected call: 15-70 % of the calls of a history are constructed to be illegal (wrong child kind, own ancestor, foreign document, unregistered region, invalid value, unknown property); counted per op kind when the call actually raised',
    "nontrivial_measure": "state",
    "components": {"real": ["ttconv/model.py (all of it)", "ttconv/style_properties.py"],
                   "stub": [], "simulated": ["API caller issuing legal and illegal calls (seeded)"],
                   "reference": ["global well-formedness invariants + pre/post fingerprint, written from doc/data_model.md"]},
    "assumptions": [
      "region-reference invariant is evaluated for elements reachable from a document's body (the statement speaks of the document); stale references held by detached fragments are only counted as a probe",
      "validity tags of values come from TTML value types; values whose validity is debatable (bool for numeric properties, empty font-family tuple, unit restrictions) are never judged",
      "an accepted call is not required to have an effect; a rejected multi-element call (push_children, remove_children, copy_to, set_doc on a subtree) may be half applied as long as all invariants hold",
    ],
    "sample_fallback": "see replays/",
  }
