"""C14 - snapshot acceleration and repeated use never change results or the source.

Simulation: one shared ContentDocument D (built from a seeded recipe, or read by a real reader
from a simulated authoring tool's file) receives a seeded *history* of calls -
significant_times (objects kept and reused much later), from_model uncached and cached,
generate_isd_sequence, the SRT / WebVTT / IMSC writers under seeded configurations. After
every call:

  I1  the deep fingerprint of D (and of every cached per-region clone held by a kept
      SignificantTimes) equals the one taken before the first call;
  I2  the result equals the result of the same call made once on a brand-new equal document
      (pristine reference), and a repeated call equals its own earlier result;
  I3  cached snapshot == uncached snapshot after deleting, on both sides, empty regions that
      paint nothing.
"""
import base64
import io
from fractions import Fraction

from sim import core, shrink as shr
from sim.producers import text as ptext, stl as pstl, ttml as pttml, scc608 as pscc

core.ensure_repo_on_path()

import logging  # noqa: E402

import ttconv.model as m  # noqa: E402
import ttconv.style_properties as sp  # noqa: E402
import ttconv.imsc.writer as imsc_writer  # noqa: E402
import ttconv.srt.writer as srt_writer  # noqa: E402
import ttconv.vtt.writer as vtt_writer  # noqa: E402
from ttconv.imsc.config import IMSCWriterConfiguration  # noqa: E402
from ttconv.isd import ISD  # noqa: E402
from ttconv.srt.config import SRTWriterConfiguration  # noqa: E402
from ttconv.vtt.config import VTTWriterConfiguration  # noqa: E402

logging.getLogger("ttconv").setLevel(logging.CRITICAL)
logging.getLogger("ttconv").addHandler(logging.NullHandler())
logging.getLogger("ttconv").propagate = False

ID = "C14"
LEVEL = "exploration"
ISOLATE_RUNS = True  # every history runs in its own fork: state leaked by one history cannot reach the next
SOFT_TIMEOUT = 30
TIERS = {
  "quick": {"runs": 3200, "hard_timeout": 90, "shrink_budget": 30, "shrink_total": 240, "det_sample": 32},
  "thorough": {"runs": 150000, "hard_timeout": 120, "shrink_budget": 120, "shrink_total": 900, "det_sample": 256},
}

L = sp.LengthType
U = sp.LengthType.Units
P_ = sp.StyleProperties


def C(r, g, b, a=255):
  return sp.ColorType((r, g, b, a))


# valid values per property: name -> value
VALS = {
  "BackgroundColor": {"red": C(255, 0, 0), "transparent": C(0, 0, 0, 0), "halfblue": C(0, 0, 255, 128), "black": C(0, 0, 0)},
  "Color": {"white": C(255, 255, 255), "yellow": C(255, 255, 0), "clear": C(0, 0, 0, 0)},
  "Direction": {"ltr": sp.DirectionType.ltr, "rtl": sp.DirectionType.rtl},
  "Disparity": {"zero": L(0, U.pct), "d1": L(1, U.pct)},
  "Display": {"auto": sp.DisplayType.auto, "none": sp.DisplayType.none},
  "DisplayAlign": {"before": sp.DisplayAlignType.before, "center": sp.DisplayAlignType.center, "after": sp.DisplayAlignType.after},
  "Extent": {"full": sp.ExtentType(height=L(100, U.pct), width=L(100, U.pct)), "half": sp.ExtentType(height=L(50, U.pct), width=L(50, U.pct)),
             "zero": sp.ExtentType(height=L(0, U.pct), width=L(50, U.pct)), "px": sp.ExtentType(height=L(108, U.px), width=L(192, U.px)),
             "cells": sp.ExtentType(height=L(5, U.c), width=L(10, U.c))},
  "FillLineGap": {"true": True, "false": False},
  "FontFamily": {"arial": ("Arial", sp.GenericFontFamilyType.sansSerif), "mono": (sp.GenericFontFamilyType.monospace,)},
  "FontSize": {"c1": L(1, U.c), "pct150": L(150, U.pct), "em2": L(2, U.em), "px40": L(40, U.px)},
  "FontStyle": {"italic": sp.FontStyleType.italic, "normal": sp.FontStyleType.normal},
  "FontWeight": {"bold": sp.FontWeightType.bold, "normal": sp.FontWeightType.normal},
  "LineHeight": {"normal": sp.SpecialValues.normal, "pct125": L(125, U.pct), "c1": L(1, U.c)},
  "LinePadding": {"c05": L(0.5, U.c), "c0": L(0, U.c)},
  "LuminanceGain": {"one": 1.0, "two": 2.0},
  "MultiRowAlign": {"center": sp.MultiRowAlignType.center, "auto": sp.MultiRowAlignType.auto},
  "Opacity": {"one": 1.0, "zero": 0.0, "half": 0.5},
  "Origin": {"tl": sp.CoordinateType(x=L(0, U.pct), y=L(0, U.pct)), "mid": sp.CoordinateType(x=L(25, U.pct), y=L(25, U.pct)),
             "px": sp.CoordinateType(x=L(96, U.px), y=L(54, U.px))},
  "Overflow": {"visible": sp.OverflowType.visible, "hidden": sp.OverflowType.hidden},
  "Padding": {"zero": sp.PaddingType(), "one": sp.PaddingType(L(1, U.pct), L(1, U.pct), L(1, U.pct), L(1, U.pct))},
  "Position": {"center": sp.PositionType(h_offset=L(50, U.pct), v_offset=L(50, U.pct)),
               "br": sp.PositionType(h_offset=L(10, U.pct), v_offset=L(10, U.pct), h_edge=sp.PositionType.HEdge.right, v_edge=sp.PositionType.VEdge.bottom)},
  "RubyAlign": {"center": sp.RubyAlignType.center, "spaceAround": sp.RubyAlignType.spaceAround},
  "RubyPosition": {"before": sp.AnnotationPositionType.before, "outside": sp.AnnotationPositionType.outside},
  "RubyReserve": {"none": sp.SpecialValues.none, "both": sp.RubyReserveType(position=sp.RubyReserveType.Position.both, length=L(1, U.em))},
  "Shear": {"zero": 0.0, "s16": 16.67},
  "ShowBackground": {"always": sp.ShowBackgroundType.always, "whenActive": sp.ShowBackgroundType.whenActive},
  "TextAlign": {"start": sp.TextAlignType.start, "center": sp.TextAlignType.center, "end": sp.TextAlignType.end},
  "TextCombine": {"none": sp.TextCombineType.none, "all": sp.TextCombineType.all},
  "TextDecoration": {"under": sp.TextDecorationType(underline=True), "none": sp.TextDecorationType(underline=False, line_through=False, overline=False),
                     "partial": sp.TextDecorationType(line_through=True)},
  "TextEmphasis": {"none": sp.SpecialValues.none, "auto": sp.TextEmphasisType(style=sp.TextEmphasisType.Style.auto),
                   "dot": sp.TextEmphasisType(style=sp.TextEmphasisType.Style.filled_dot, color=C(255, 0, 0), position=sp.TextEmphasisType.Position.before)},
  "TextOutline": {"none": sp.SpecialValues.none, "thin": sp.TextOutlineType(L(5, U.pct), C(0, 0, 0)), "nocolor": sp.TextOutlineType(L(1, U.px))},
  "TextShadow": {"none": sp.SpecialValues.none, "one": sp.TextShadowType((sp.TextShadowType.Shadow(L(1, U.px), L(1, U.px)),)),
                 "two": sp.TextShadowType((sp.TextShadowType.Shadow(L(1, U.em), L(1, U.em), L(2, U.pct), C(0, 0, 0)), sp.TextShadowType.Shadow(L(0, U.c), L(1, U.c))))},
  "UnicodeBidi": {"normal": sp.UnicodeBidiType.normal, "embed": sp.UnicodeBidiType.embed},
  "Visibility": {"visible": sp.VisibilityType.visible, "hidden": sp.VisibilityType.hidden},
  "WrapOption": {"wrap": sp.WrapOptionType.wrap, "noWrap": sp.WrapOptionType.noWrap},
  "WritingMode": {"lrtb": sp.WritingModeType.lrtb, "rltb": sp.WritingModeType.rltb, "tbrl": sp.WritingModeType.tbrl},
}
PROPS = {p.__name__: p for p in P_.ALL}
PROP_NAMES = sorted(PROPS)
REGION_PAINT_PROPS = ["BackgroundColor", "ShowBackground", "Display", "Opacity", "Visibility", "Extent"]
TIMES = ["0", "1/2", "1", "3/2", "2", "5/2", "3", "4", "5", "6", "7", "10", "1001/1000", "10001/10000", "10002/10000", "30000/1001", "1/3"]
KIND = {k: getattr(m, k) for k in ["Body", "Div", "P", "Span", "Br", "Text", "Ruby", "Rb", "Rt", "Rp", "Rbc", "Rtc"]}


def F(s):
  return None if s is None else Fraction(s)


# ------------------------------------------------------------------ recipes

def _styles(rng, kind_props, k=None):
  k = rng.choice([0, 0, 1, 2, 3]) if k is None else k
  out = []
  for pn in rng.sample(kind_props, min(k, len(kind_props))):
    out.append([pn, rng.choice(sorted(VALS[pn]))])
  return out


def _anims(rng, props, p=0.2):
  out = []
  if rng.random() < p:
    for _ in range(rng.choice([1, 1, 2])):
      pn = rng.choice(props)
      b = rng.choice([None] + TIMES[:10])
      e = rng.choice([None] + TIMES[:12])
      out.append([pn, b, e, rng.choice(sorted(VALS[pn]))])
  return out


def _timing(rng, p=0.5):
  b = rng.choice(TIMES) if rng.random() < p else None
  e = rng.choice(TIMES) if rng.random() < p else None
  return b, e


def _hide_and_reveal(rng, node):
  """specified style hides the element, a discrete animation step shows it for a while (or the other way round)"""
  pn, hidden, shown = rng.choice([("Display", "none", "auto"), ("Visibility", "hidden", "visible"), ("Opacity", "zero", "one")])
  a, b = (hidden, shown) if rng.random() < 0.75 else (shown, hidden)
  node["styles"] = [st for st in node.get("styles", []) if st[0] != pn] + [[pn, a]]
  node["anims"] = node.get("anims", []) + [[pn, rng.choice([None] + TIMES[:6]), rng.choice([None] + TIMES[4:12]), b]]


def _inline(rng, regions, depth):
  out = []
  for _ in range(rng.choice([0, 1, 1, 2, 3])):
    r = rng.random()
    if r < 0.15:
      out.append({"k": "Br"})
    elif r < 0.25 and depth == 0:
      pat = rng.choice([["Rb", "Rt"], ["Rb", "Rp", "Rt", "Rp"], ["Rbc", "Rtc"], ["Rbc", "Rtc", "Rtc"]])
      kids = []
      for k in pat:
        if k in ("Rb", "Rt", "Rp"):
          b, e = _timing(rng, 0.25)
          kids.append({"k": k, "begin": b, "end": e, "c": [{"k": "Span", "c": [{"k": "Text", "text": rng.choice(["b", "ann", "(", ""])}]}] if rng.random() < 0.85 else []})
        elif k == "Rbc":
          kids.append({"k": k, "c": [{"k": "Rb", "c": [{"k": "Span", "c": [{"k": "Text", "text": "base"}]}]}]})
        else:
          b, e = _timing(rng, 0.3)
          kids.append({"k": k, "begin": b, "end": e, "c": [{"k": "Rt", "c": [{"k": "Span", "c": [{"k": "Text", "text": "t"}]}]}] if rng.random() < 0.8 else []})
      out.append({"k": "Ruby", "c": kids})
    else:
      b, e = _timing(rng, 0.3)
      node = {"k": "Span", "begin": b, "end": e, "styles": _styles(rng, ["Color", "BackgroundColor", "FontStyle", "FontWeight", "TextDecoration", "FontSize", "Visibility", "Display", "Opacity", "TextOutline", "TextShadow", "TextEmphasis", "FontFamily"]),
              "anims": _anims(rng, ["Color", "Visibility", "Display", "BackgroundColor"], 0.1)}
      if regions and rng.random() < 0.1:
        node["region"] = rng.choice(regions)
      if rng.random() < 0.12:
        _hide_and_reveal(rng, node)
      if rng.random() < 0.2:
        node["space"] = "preserve"
      if depth < 2 and rng.random() < 0.3:
        node["c"] = _inline(rng, regions, depth + 1)
      else:
        node["c"] = [{"k": "Text", "text": rng.choice(["Hello", " world ", "a  b", "\n  x", "", " ", "漢字", "line\n two"])}]
      out.append(node)
  return out


def gen_recipe(rng):
  nreg = rng.choice([0, 1, 1, 2, 2, 3, 4])
  regions = []
  ids = []
  for i in range(nreg):
    rid = "r%d" % i
    ids.append(rid)
    b, e = _timing(rng, 0.25)
    st = _styles(rng, REGION_PAINT_PROPS + ["Origin", "DisplayAlign", "WritingMode", "Padding", "Position", "Overflow"], rng.choice([0, 1, 2, 3, 4]))
    if rng.random() < 0.5:
      # bias towards the combinations the acceleration inspects
      st = [s for s in st if s[0] not in ("BackgroundColor", "ShowBackground")]
      st.append(["BackgroundColor", rng.choice(["transparent", "transparent", "red", "halfblue"])])
      if rng.random() < 0.5:
        st.append(["ShowBackground", rng.choice(["always", "whenActive"])])
    anims = _anims(rng, REGION_PAINT_PROPS, 0.35)
    if not anims and rng.random() < 0.3:
      # a background that only an animation step makes visible (or invisible)
      pn = rng.choice(["BackgroundColor", "ShowBackground", "Opacity", "Display", "Visibility"])
      anims = [[pn, rng.choice(TIMES[:8]), rng.choice([None] + TIMES[4:12]), rng.choice(sorted(VALS[pn]))]]
    regions.append({"id": rid, "begin": b, "end": e, "styles": st, "anims": anims})
  initial = []
  if rng.random() < 0.3:
    for pn in rng.sample(["ShowBackground", "BackgroundColor", "Display", "Color", "Opacity", "Visibility", "FontSize", "Extent", "Origin", "TextAlign"], rng.choice([1, 1, 2])):
      initial.append([pn, rng.choice(sorted(VALS[pn]))])
  body = None
  if rng.random() < 0.93:
    divs = []
    for _ in range(rng.choice([0, 1, 1, 2])):
      ps = []
      for _ in range(rng.choice([0, 1, 2, 3, 4])):
        b, e = _timing(rng, 0.75)
        node = {"k": "P", "begin": b, "end": e, "styles": _styles(rng, ["TextAlign", "BackgroundColor", "LineHeight", "FontSize", "Direction", "Display", "Visibility", "Opacity", "MultiRowAlign", "LinePadding", "FillLineGap", "RubyReserve", "Shear"]),
                "anims": _anims(rng, ["BackgroundColor", "Display", "Visibility", "TextAlign"], 0.1), "c": _inline(rng, ids, 0)}
        if ids and rng.random() < 0.6:
          node["region"] = rng.choice(ids)
        if rng.random() < 0.2:
          _hide_and_reveal(rng, node)
        if rng.random() < 0.15:
          node["id"] = "p%d" % len(ps)
        ps.append(node)
      b, e = _timing(rng, 0.25)
      d = {"k": "Div", "begin": b, "end": e, "styles": _styles(rng, ["BackgroundColor", "Display", "Visibility", "Opacity"], rng.choice([0, 0, 1])), "c": ps}
      if ids and rng.random() < 0.25:
        d["region"] = rng.choice(ids)
      if rng.random() < 0.06:
        _hide_and_reveal(rng, d)
      divs.append(d)
    b, e = _timing(rng, 0.15)
    body = {"k": "Body", "begin": b, "end": e, "styles": _styles(rng, ["BackgroundColor", "Display", "Visibility", "Opacity"], rng.choice([0, 0, 1])), "c": divs}
    if ids and rng.random() < 0.15:
      body["region"] = rng.choice(ids)
  params = {"lang": rng.choice(["", "en", "fr"]), "cell": rng.choice([None, [32, 15], [40, 24]]), "px": rng.choice([None, [640, 480]]),
            "aa": rng.choice([None, None, [0.1, 0.1, 0.8, 0.8]]), "dar": rng.choice([None, None, "16/9"])}
  return {"kind": "model", "params": params, "initial": initial, "regions": regions, "body": body}


def _apply_common(e, node):
  if node.get("begin") is not None:
    e.set_begin(F(node["begin"]))
  if node.get("end") is not None:
    e.set_end(F(node["end"]))
  if node.get("id"):
    e.set_id(node["id"])
  if node.get("lang"):
    e.set_lang(node["lang"])
  if node.get("space") == "preserve":
    e.set_space(m.WhiteSpaceHandling.PRESERVE)
  for pn, vn in node.get("styles", []):
    e.set_style(PROPS[pn], VALS[pn][vn])
  for pn, b, en, vn in node.get("anims", []):
    e.add_animation_step(m.DiscreteAnimationStep(PROPS[pn], F(b), F(en), VALS[pn][vn]))


def _build_node(doc, node):
  k = node["k"]
  if k == "Text":
    return m.Text(doc, node.get("text", ""))
  e = KIND[k](doc)
  if k != "Br":
    _apply_common(e, node)
    if node.get("region") is not None and doc.get_region(node["region"]) is not None:
      e.set_region(doc.get_region(node["region"]))
  kids = [_build_node(doc, c) for c in node.get("c", [])]
  if kids:
    e.push_children(kids)
  return e


READERS = None


def _readers():
  global READERS
  if READERS is None:
    import xml.etree.ElementTree as et
    import ttconv.imsc.reader as imsc_reader
    import ttconv.scc.reader as scc_reader
    import ttconv.srt.reader as srt_reader
    import ttconv.stl.reader as stl_reader
    import ttconv.vtt.reader as vtt_reader
    READERS = {
      "ttml": lambda d: imsc_reader.to_model(et.parse(io.BytesIO(d))),
      "scc": lambda d: scc_reader.to_model(d.decode("utf-8")),
      "stl": lambda d: stl_reader.to_model(io.BytesIO(d)),
      "srt": lambda d: srt_reader.to_model(io.TextIOWrapper(io.BytesIO(d), encoding="utf-8")),
      "vtt": lambda d: vtt_reader.to_model(io.TextIOWrapper(io.BytesIO(d), encoding="utf-8")),
    }
  return READERS


PRODUCERS = {"srt": ptext.srt, "vtt": ptext.vtt, "scc": pscc.scc_mixed, "stl": pstl.stl, "ttml": pttml.ttml}


def build(recipe):
  """Brand-new document from a recipe. Deterministic."""
  if recipe["kind"] == "file":
    return _readers()[recipe["fmt"]](base64.b64decode(recipe["data"]))
  doc = m.ContentDocument()
  p = recipe["params"]
  doc.set_lang(p["lang"])
  if p["cell"]:
    doc.set_cell_resolution(m.CellResolutionType(columns=p["cell"][0], rows=p["cell"][1]))
  if p["px"]:
    doc.set_px_resolution(m.PixelResolutionType(width=p["px"][0], height=p["px"][1]))
  if p["aa"]:
    doc.set_active_area(m.ActiveAreaType(*p["aa"]))
  if p["dar"]:
    doc.set_display_aspect_ratio(Fraction(p["dar"]))
  for pn, vn in recipe["initial"]:
    doc.put_initial_value(PROPS[pn], VALS[pn][vn])
  for r in recipe["regions"]:
    reg = m.Region(r["id"], doc)
    _apply_common(reg, r)
    doc.put_region(reg)
  if recipe["body"] is not None:
    doc.set_body(_build_node(doc, recipe["body"]))
  return doc


# ------------------------------------------------------------------ fingerprints / canonical results

def _fp_el(doc, e):
  reg = e.get_region()
  regs = None
  if reg is not None:
    regs = (reg.get_id(), doc.get_region(reg.get_id()) is reg)
  return (
    type(e).__name__, e.get_id(), str(e.get_begin()), str(e.get_end()), e.get_lang(), e.get_space().name, regs,
    [(p.__name__, repr(e.get_style(p))) for p in e.iter_styles()],
    [(a.style_property.__name__, str(a.begin), str(a.end), repr(a.value)) for a in e.iter_animation_steps()],
    e.get_text() if isinstance(e, m.Text) else None,
    [_fp_el(doc, c) for c in e],
  )


def fingerprint(doc):
  return core.canon((
    repr(doc.get_active_area()), repr(doc.get_cell_resolution()), repr(doc.get_px_resolution()), str(doc.get_display_aspect_ratio()), doc.get_lang(),
    [(p.__name__, repr(v)) for p, v in doc.iter_initial_values()],
    [_fp_el(doc, r) for r in doc.iter_regions()],
    None if doc.get_body() is None else _fp_el(doc, doc.get_body()),
  ))


def _canon_el(e, rendered_only=False):
  """rendered_only: content subtrees without any text or line break generate no areas (their
  backgrounds included), so they are left out when two snapshots are compared for rendering."""
  return (
    type(e).__name__, e.get_id(), e.get_lang(), e.get_space().name,
    sorted((p.__name__, repr(e.get_style(p))) for p in e.iter_styles()),
    e.get_text() if isinstance(e, m.Text) else None,
    [_canon_el(c, rendered_only) for c in e if not rendered_only or has_glyphs(c)],
  )


def canon_isd(isd, drop_nonpainting=False):
  if isd is None:
    return None
  regs = []
  for r in isd.iter_regions():
    if drop_nonpainting and not has_glyphs(r) and not paints(r):
      continue
    regs.append(_canon_el(r, drop_nonpainting))
  return (repr(isd.get_active_area()), repr(isd.get_cell_resolution()), repr(isd.get_px_resolution()), str(isd.get_display_aspect_ratio()), isd.get_lang(), regs)


def has_glyphs(e):
  """does the subtree contain anything that occupies space: a non-empty text node or a line break?"""
  for x in e.dfs_iterator():
    if isinstance(x, m.Br) or (isinstance(x, m.Text) and x.get_text()):
      return True
  return False


def paints(r):
  """An empty ISD region paints iff its background is shown, visible and has an area."""
  if r.get_style(P_.ShowBackground) is not sp.ShowBackgroundType.always:
    return False
  bg = r.get_style(P_.BackgroundColor)
  if bg is None or bg.components[3] == 0:
    return False
  op = r.get_style(P_.Opacity)
  if op is not None and op <= 0:
    return False
  if r.get_style(P_.Visibility) is sp.VisibilityType.hidden:
    return False
  if r.get_style(P_.Display) is sp.DisplayType.none:
    return False
  ext = r.get_style(P_.Extent)
  if ext is not None and (ext.width.value <= 0 or ext.height.value <= 0):
    return False
  return True


# ------------------------------------------------------------------ calls

SRT_CFGS = [None, {}, {"text_formatting": True}, {"text_formatting": False}]
VTT_CFGS = [None, {}] + [{"line_position": a, "text_align": b, "cue_id": c} for a in (True, False) for b in (True, False) for c in (True, False)]
IMSC_CFGS = [None, {}, {"time_format": "clock_time"}, {"time_format": "frames", "fps": "25/1"}, {"time_format": "frames", "fps": "30000/1001"},
             {"time_format": "clock_time_with_frames", "fps": "30/1"}, {"fps": "24/1"}]


def do_call(doc, op, sigs):
  """Executes one call; returns a canonical, comparable result."""
  k = op[0]
  if k == "SIG":
    s = ISD.significant_times(doc)
    sigs.append(s)
    return [str(t) for t in s]
  if k == "SNAP":
    return canon_isd(ISD.from_model(doc, F(op[1])))
  if k == "SNAPC":
    return canon_isd(ISD.from_model(doc, F(op[1]), sigs[op[2]]))
  if k == "SWEEPSIG":
    # cached snapshots over the whole time line of a kept significant-times object (paint rule applied)
    s = sigs[op[1]]
    ts = sweep_times(s)
    return [(str(t), canon_isd(ISD.from_model(doc, t, s), True)) for t in ts]
  if k == "SEQ":
    return [(str(t), canon_isd(i)) for t, i in ISD.generate_isd_sequence(doc)]
  if k == "SRT":
    return srt_writer.from_model(doc, None if op[1] is None else SRTWriterConfiguration.parse(op[1]))
  if k == "VTT":
    return vtt_writer.from_model(doc, None if op[1] is None else VTTWriterConfiguration.parse(op[1]))
  if k == "IMSC":
    tree = imsc_writer.from_model(doc, None if op[1] is None else IMSCWriterConfiguration.parse(op[1]))
    buf = io.BytesIO()
    tree.write(buf, encoding="utf-8")
    return buf.getvalue().decode("utf-8")
  raise core.HarnessError("op " + str(op))


def sweep_times(s):
  offs = list(s)
  if len(offs) > 24:
    step = len(offs) / 24.0
    offs = [offs[int(k * step)] for k in range(24)]
  ts = []
  for i, t in enumerate(offs):
    ts.append(t)
    ts.append(t + Fraction(1, 1000))
    if i + 1 < len(offs):
      ts.append((t + offs[i + 1]) / 2)
  return ts


def guarded(fn):
  try:
    return ("ok", fn())
  except core.RunTimeout:
    raise
  except core.HarnessError:
    raise
  except Exception as e:
    return ("exc", type(e).__name__)


def gen_time(rng, known_times):
  r = rng.random()
  if known_times and r < 0.55:
    t = Fraction(rng.choice(known_times))
    d = rng.choice([0, 0, Fraction(1, 1000), Fraction(-1, 1000), Fraction(1, 100000)])
    return str(max(Fraction(0), t + d)) if rng.random() < 0.9 else str(t + d)
  if len(known_times) > 1 and r < 0.8:
    i = rng.randrange(len(known_times) - 1)
    return str((Fraction(known_times[i]) + Fraction(known_times[i + 1])) / 2)
  if r < 0.9:
    return rng.choice(TIMES)
  return rng.choice(["-1", "1000", "0"])


def gen_op(rng, knobs, nsig, known_times):
  kinds = knobs["ops_enabled"]
  k = rng.choices(kinds, [knobs["weights"][x] for x in kinds])[0]
  if k in ("SNAPC", "SWEEPSIG") and nsig == 0:
    k = "SIG"
  if k == "SIG":
    return ["SIG"]
  if k == "SNAP":
    return ["SNAP", gen_time(rng, known_times)]
  if k == "SNAPC":
    # bias to stale objects: the oldest one half of the time
    idx = 0 if rng.random() < 0.5 else rng.randrange(nsig)
    return ["SNAPC", gen_time(rng, known_times), idx]
  if k == "SWEEPSIG":
    return ["SWEEPSIG", 0 if rng.random() < 0.5 else rng.randrange(nsig)]
  if k == "SEQ":
    return ["SEQ"]
  if k == "SRT":
    return ["SRT", rng.choice(SRT_CFGS)]
  if k == "VTT":
    return ["VTT", rng.choice(VTT_CFGS)]
  return ["IMSC", rng.choice(IMSC_CFGS)]


ALL_OPS = ["SIG", "SNAP", "SNAPC", "SWEEPSIG", "SEQ", "SRT", "VTT", "IMSC"]


def gen_knobs(rng):
  if rng.random() < 0.75:
    recipe = gen_recipe(rng)
  else:
    fmt = rng.choice(["ttml", "ttml", "vtt", "srt", "stl", "scc"])
    data = None
    for _ in range(6):
      cand = PRODUCERS[fmt](rng)
      if len(cand) <= 3000:
        data = cand
        break
    recipe = {"kind": "file", "fmt": fmt, "data": base64.b64encode(data).decode("ascii")} if data is not None else gen_recipe(rng)
  enabled = [o for o in ALL_OPS if rng.random() < 0.75]
  for must in ("SIG", "SNAP", "SNAPC"):
    if must not in enabled and rng.random() < 0.8:
      enabled.append(must)
  if not enabled:
    enabled = list(ALL_OPS)
  w = {o: rng.choice([0.5, 1, 2, 4]) for o in enabled}
  for heavy in ("SEQ", "SRT", "VTT", "IMSC", "SWEEPSIG"):
    if heavy in w:
      w[heavy] = w[heavy] * 0.4
  return {"recipe": recipe, "nops": rng.randint(4, 40), "ops_enabled": sorted(enabled), "weights": {o: w[o] for o in sorted(w)}}


def run_one(rng, case, stats, rec, log, ctx=None):
  knobs = gen_knobs(rng) if case is None else case["knobs"]
  rec.set_knobs(knobs)
  recipe = knobs["recipe"]
  try:
    D = build(recipe)
    twin = build(recipe)
  except core.RunTimeout:
    raise
  except Exception as e:
    if recipe["kind"] == "file":
      stats.count("recipe.unreadable_file")
      log.add("unreadable", type(e).__name__)
      return
    raise core.HarnessError("recipe does not build: %s %s" % (type(e).__name__, e))
  if D is None:
    stats.count("recipe.reader_returned_none")
    log.add("none")
    return
  fp0 = fingerprint(D)
  if fingerprint(twin) != fp0:
    raise core.HarnessError("two builds of one recipe differ")
  stats.count("recipe." + recipe["kind"] + ("." + recipe["fmt"] if recipe["kind"] == "file" else ""))
  nregions = len(list(D.iter_regions()))
  stats.count("doc.regions.%s" % min(nregions, 3))
  sigs = []
  sig_fps = []
  first_results = {}
  kt = guarded(lambda: ISD.significant_times(twin))
  known_times = [str(t) for t in kt[1]] if kt[0] == "ok" else []
  # the probe above ran on `twin`, which is discarded; D is still untouched
  nops = knobs["nops"] if case is None else len(case["ops"])
  for step in range(nops):
    if case is None:
      op = gen_op(rng, knobs, len(sigs), known_times)
    else:
      op = case["ops"][step]
      if op[0] in ("SNAPC", "SWEEPSIG") and (not sigs):
        continue
      if op[0] == "SNAPC" and op[2] >= len(sigs):
        op = ["SNAPC", op[1], len(sigs) - 1]
      if op[0] == "SWEEPSIG" and op[1] >= len(sigs):
        op = ["SWEEPSIG", len(sigs) - 1]
    rec.op(op)
    stats.count("op." + op[0])
    nsig_before = len(sigs)
    got = guarded(lambda: do_call(D, op, sigs))
    if len(sigs) > nsig_before:
      sig_fps.append([fingerprint(c.doc) for c in sigs[-1].cache()])
      if len(sigs[-1].cache()) > 1:
        stats.count("probe.multi_region_clone_path")
    sig_info = ""
    try:
      # ---- I1 source unchanged
      fp = fingerprint(D)
      if fp != fp0:
        raise core.Violation("I1.source-changed:" + op[0], "after %s the document differs\nbefore=%s\nafter =%s" % (op, fp0[:3000], fp[:3000]))
      for si, s in enumerate(sigs):
        for ci, c in enumerate(s.cache()):
          if c.doc is not D and fingerprint(c.doc) != sig_fps[si][ci]:
            raise core.Violation("I1.cached-clone-changed:" + op[0], "after %s cached clone %d of significant-times object %d differs" % (op, ci, si))
      # ---- I2 equals the pristine reference
      ref_doc = build(recipe)
      ref_sigs = []
      if op[0] == "SNAPC":
        ref_sigs = [None] * op[2] + [ISD.significant_times(ref_doc)]
      if op[0] == "SWEEPSIG":
        stats.count("probe.whole_timeline_sweep")
        times_ = sweep_times(sigs[op[1]])
        ref = guarded(lambda: [(str(t), canon_isd(ISD.from_model(ref_doc, t), True)) for t in times_])
      else:
        ref = guarded(lambda: do_call(ref_doc, op, ref_sigs))
      if got[0] != ref[0]:
        raise core.Violation("I2.history-dependent-outcome:" + op[0], "%s on the shared document: %s; on a pristine equal document: %s" % (op, got[:2] if got[0] == "exc" else "ok", ref[:2] if ref[0] == "exc" else "ok"))
      if got[0] == "exc":
        stats.count("skipped.raises_on_both")
        log.add(step, op, "raises", got[1])
        continue
      if got[1] != ref[1]:
        if op[0] == "SWEEPSIG":
          bad = [(a_[0], a_[1], b_[1]) for a_, b_ in zip(got[1], ref[1]) if a_ != b_][:1]
          raise core.Violation("I3.cached-differs-from-uncached:timeline-sweep", "t=%s\ncached  =%s\nuncached=%s" % (bad[0][0], core.canon(bad[0][1])[:2500], core.canon(bad[0][2])[:2500]))
        raise core.Violation("I2.differs-from-pristine:" + op[0], "%s\nshared  =%s\npristine=%s" % (op, core.canon(got[1])[:3000], core.canon(ref[1])[:3000]))
      key = core.canon(op)
      if key in first_results:
        stats.count("probe.repeated_call")
        if first_results[key] != got[1]:
          raise core.Violation("I2.repeat-differs:" + op[0], "%s" % (op,))
      else:
        first_results[key] = got[1]
      # ---- I3 cached == uncached modulo empty regions that paint nothing
      if op[0] == "SNAPC":
        t = F(op[1])
        s = sigs[op[2]]
        age = step
        if len(sigs) > 1 or age > 10:
          stats.count("probe.stale_sig_reused")
        shortcut = False
        for c in s.cache():
          ci = c.content_interval
          if ci is not None and (ci[0] > t or (ci[1] is not None and ci[1] <= t)):
            shortcut = True
        if shortcut:
          stats.count("probe.content_interval_shortcut_taken")
        a = canon_isd(ISD.from_model(D, t, s), True)
        b = canon_isd(ISD.from_model(build(recipe), t), True)
        full_a = canon_isd(ISD.from_model(D, t, s), False)
        full_b = canon_isd(ISD.from_model(build(recipe), t), False)
        if full_a != full_b:
          stats.count("probe.paint_rule_needed")
        if a != b:
          raise core.Violation("I3.cached-differs-from-uncached" + (":shortcut" if shortcut else ""),
                               "t=%s\ncached  =%s\nuncached=%s" % (op[1], core.canon(a)[:3000], core.canon(b)[:3000]))
        sig_info = "shortcut" if shortcut else "full"
    except core.Violation:
      raise
    log.add(step, op, core.small_hash(got[1]), sig_info)
    stats.seen("call_pair", recipe["kind"], min(nregions, 3), op[0], sig_info)
  stats.seen("history_shape", recipe["kind"], min(nregions, 3), [o[0] for o in rec.ops][:12])
  log.add("final", core.small_hash(fp0))


# ------------------------------------------------------------------ shrinking

def _recipe_variants(recipe):
  """Simpler recipes: drop regions, drop body subtrees, drop styles/anims/timing."""
  if recipe["kind"] != "model":
    return
  import copy
  for i in range(len(recipe["regions"])):
    r = copy.deepcopy(recipe)
    del r["regions"][i]
    yield r
  for i in range(len(recipe["initial"])):
    r = copy.deepcopy(recipe)
    del r["initial"][i]
    yield r
  for i, reg in enumerate(recipe["regions"]):
    for key in ("anims", "styles"):
      for j in range(len(reg[key])):
        r = copy.deepcopy(recipe)
        del r["regions"][i][key][j]
        yield r
    for key in ("begin", "end"):
      if reg.get(key) is not None:
        r = copy.deepcopy(recipe)
        r["regions"][i][key] = None
        yield r

  def walk(node, path):
    for i, c in enumerate(node.get("c", [])):
      yield path + [i]
      yield from walk(c, path + [i])
  if recipe["body"] is not None:
    r = copy.deepcopy(recipe)
    r["body"] = None
    yield r
    for path in list(walk(recipe["body"], [])):
      r = copy.deepcopy(recipe)
      n = r["body"]
      for i in path[:-1]:
        n = n["c"][i]
      if n["k"] in ("Ruby", "Rtc"):
        continue
      del n["c"][path[-1]]
      yield r
    for path in [[]] + list(walk(recipe["body"], [])):
      n0 = recipe["body"]
      for i in path:
        n0 = n0["c"][i]
      for key in ("styles", "anims"):
        for j in range(len(n0.get(key, []))):
          r = copy.deepcopy(recipe)
          n = r["body"]
          for i in path:
            n = n["c"][i]
          del n[key][j]
          yield r
      for key in ("begin", "end", "region", "space", "id"):
        if n0.get(key) is not None:
          r = copy.deepcopy(recipe)
          n = r["body"]
          for i in path:
            n = n["c"][i]
          n[key] = None
          yield r
  if any(recipe["params"].values()):
    r = copy.deepcopy(recipe)
    r["params"] = {"lang": "", "cell": None, "px": None, "aa": None, "dar": None}
    yield r


def shrink(case, is_bad, deadline):
  import time
  knobs = dict(case["knobs"])
  ops = shr.ddmin(case["ops"], lambda o: is_bad({"knobs": knobs, "ops": o}), deadline)
  recipe = knobs["recipe"]
  progress = True
  while progress and time.monotonic() < deadline:
    progress = False
    for cand in _recipe_variants(recipe):
      if time.monotonic() > deadline:
        break
      k2 = dict(knobs, recipe=cand)
      if is_bad({"knobs": k2, "ops": ops}):
        recipe = cand
        knobs = k2
        progress = True
        break
  ops = shr.ddmin(ops, lambda o: is_bad({"knobs": knobs, "ops": o}), deadline)
  return {"knobs": knobs, "ops": ops}


def sample_of(case):
  r = case["knobs"]["recipe"]
  if r["kind"] == "file":
    src = {"from_reader": r["fmt"], "bytes": len(base64.b64decode(r["data"]))}
  else:
    src = {"regions": [{"id": x["id"], "styles": x["styles"], "anims": x["anims"]} for x in r["regions"]][:3], "initial": r["initial"], "has_body": r["body"] is not None}
  return {"document": src, "calls": case["ops"][:20]}


def describe():
  return {
    "rule": ("one evaluation = one seeded history of 4-40 calls (SIG = significant_times kept for reuse, SNAP = from_model uncached, SNAPC = "
             "from_model with a kept - often stale - significant-times object, SEQ = generate_isd_sequence, SRT/VTT/IMSC = writers under "
             "seeded valid configurations) on ONE shared document built from a seeded recipe (0-4 regions with begin/end, background / "
             "showBackground / display / opacity / visibility / extent specified, animated or given as initial values; nested timed "
             "div/p/span/br/ruby; region references at any level) or read by a real reader from a producer file. Snapshot times are "
             "significant times, +-1 ms around them, midpoints, and values outside the document. distinct_nontrivial counts distinct "
             "(document source, region count class, call kind, cached-path class) x first-12-call-kind sequences (measure history_shape)."),
    "fault_note": "no fault is injected: C14's statement has no fault dimension; the explored dimension is the order and reuse of calls on shared state (stale SignificantTimes objects, repeated writers)",
    "nontrivial_measure": "history_shape",
    "components": {"real": ["isd.py (significant_times, from_model, generate_isd_sequence, style processors)", "model.py", "ISD filters used by the writers", "srt/vtt/imsc writers", "readers when the recipe is a file"],
                   "stub": [], "simulated": ["caller issuing the call history (seeded scheduler)", "authoring tools for file recipes"],
                   "reference": ["the same call on a pristine equal document; paint rule for empty regions"]},
    "assumptions": [
      "results are compared in canonical form: ISDs as nested tuples of region order, element kinds, ids, lang, space, computed styles (sorted by property name, repr of value) and text; writer outputs as strings",
      "a region is 'empty and paints nothing' iff its subtree holds no non-empty text node and no line break (elements without glyphs have no area) and its own background is not shown: showBackground=always, background alpha>0, opacity>0, visibility visible, display auto and extent>0",
      "a call that raises on the shared and on the pristine document alike is skipped (crash freedom is C18's subject)",
      "no pre-emption inside calls: the code is single-threaded and the property is stated at call granularity",
    ],
  }
