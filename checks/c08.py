"""C08 - the SCC reader shows what a CEA-608 decoder displays, when it displays it.

Simulation: a caption *encoder* executes a seeded script (pop-on / roll-up / paint-on captions)
and owns the frame clock; a line-21 *channel* perturbs the word stream in the ways the statement
lists (codes sent once or twice, null padding, channel-2 bursts, parity bits, different line
segmentation, DF/NDF labels, idle gaps and clock jumps between lines); the *decoder under test*
is ttconv.scc.reader.to_model; the *reference* is sim/ref/screen608.py fed the same transmitted
words in lock step with the clock.

History check after the run:
  * every begin/end the reader emits is an exact frame multiple, not earlier than its line's
    label, and lies in the transmission window of a word that changes the reference display;
  * in the middle of every quiescent interval (no display change in the reference for >= 6
    frames) the document shows the same rows, characters and pen attributes as the reference
    displayed memory (row ends stripped, runs of blanks collapsed; absolute rows for pop-on and
    paint-on; roll-up paragraphs sit in bottom-aligned regions that end on row 15);
  * the same script sent through another channel configuration gives the same display sequence.
"""
from fractions import Fraction

from sim import core, shrink as shr
from sim.producers import scc608 as enc
from sim.ref import screen608 as ref608

core.ensure_repo_on_path()

import logging  # noqa: E402
import os  # noqa: E402

import ttconv.model as m  # noqa: E402
import ttconv.scc.reader as scc_reader  # noqa: E402
import ttconv.style_properties as sp  # noqa: E402
from ttconv.scc.config import SccReaderConfiguration  # noqa: E402

_L = logging.getLogger("ttconv")
_L.setLevel(logging.CRITICAL)
_L.addHandler(logging.NullHandler())
_L.propagate = False

ID = "C08"
LEVEL = "exploration"
SOFT_TIMEOUT = 30
TIERS = {
  "quick": {"runs": 12000, "hard_timeout": 90, "shrink_budget": 30, "shrink_total": 300, "det_sample": 48},
  "thorough": {"runs": 1500000, "hard_timeout": 120, "shrink_budget": 120, "shrink_total": 900, "det_sample": 512},
}

COLOR_OF = {(255, 255, 255, 255): "white", (0, 128, 0, 255): "green", (0, 255, 0, 255): "green", (0, 0, 255, 255): "blue", (0, 255, 255, 255): "cyan",
            (255, 0, 0, 255): "red", (255, 255, 0, 255): "yellow", (255, 0, 255, 255): "magenta"}
ROW_CONTINUES = {"text", "midrow", "special", "extended", "tab", "BS"}  # event kinds that continue the row being written
MERGE_GAP = 14  # frames: activity closer than this (null padding <= 5, channel-2 burst <= 6 words) belongs to one transmission window


def gen_knobs(rng):
  styles = rng.choice([["pop"], ["pop"], ["roll"], ["paint"], ["pop", "roll"], ["pop", "paint"], ["pop", "roll", "paint"]])
  df = rng.random() < 0.4
  start = rng.choice([0, 30, 1799, 1800, 17981, 17982, 107892, 108000, rng.randrange(0, 200000)])
  if df:
    # keep DF start labels valid and biased to minute / ten-minute / hour boundaries
    start = rng.choice([0, 1796, 1797, 1798, 1800, 17980, 17982, 107890, 107892, rng.randrange(0, 200000)])
  return {
    "styles": styles, "captions": rng.randint(1, 12), "switch": rng.choice([0.0, 0.2, 0.5]), "enm": rng.choice([0.0, 0.5, 1.0]),
    # style changes to and from roll-up are always preceded by EDM + ENM (RUx erases the memories when it follows another
    # style, and flipped roll-up rows lose their bottom alignment - neither is modelled by the reader); changes between
    # pop-on and paint-on may happen with a caption on screen
    "unclean": rng.choice([0.0, 0.0, 0.5, 1.0]),
    "df": df, "start": start,
    # probability of a second mid-row code straight after the first (colour then italics = coloured italics; italics then colour = colour only)
    "mid2": rng.choice([0.0, 0.3, 0.6]),
    # probability that a roll-up row is sent without a PAC after the carriage return
    "nopac": rng.choice([0.0, 0.3, 0.6]),
    # probability of a tab offset between two pieces of text of a row
    "tomid": rng.choice([0.0, 0.2, 0.5]),
    # word-by-word delivery in paint-on and roll-up: probability of idle time before a text piece of a row
    "pause": rng.choice([0.0, 0.0, 0.3, 0.6]),
    "chan": {"double": rng.random() < 0.7, "null": rng.choice([0.0, 0.0, 0.1, 0.3]), "ch2": rng.choice([0.0, 0.0, 0.1, 0.3]),
             "parity_off": rng.choice([0.0, 0.0, 0.5, 1.0]), "line_len": rng.choice([6, 12, 20, 40, 1000]), "split": rng.choice([0.0, 0.0, 0.5, 1.0])},
    "chan2": {"double": rng.random() < 0.5, "null": rng.choice([0.0, 0.2]), "ch2": rng.choice([0.0, 0.2]), "parity_off": rng.choice([0.0, 1.0]),
              "line_len": rng.choice([8, 30, 1000]), "split": rng.choice([0.0, 1.0])},
    "text_align": rng.choice([None, "auto", "left", "center", "right"]),
  }


# ------------------------------------------------------------------ observation of the SUT

def frame_of(t, df):
  """time in seconds -> frame count; None if it is not an exact frame multiple."""
  q = Fraction(t) * (Fraction(30000, 1001) if df else 30)
  return int(q) if q.denominator == 1 else None


def top_row_of(region, doc):
  """row (1..15) encoded by the region origin the reader computes from the top-most line."""
  o = region.get_style(sp.StyleProperties.Origin)
  if o is None:
    return None
  rows = doc.get_cell_resolution().rows
  for r in range(1, 16):
    if round((r - 1 + 2) * 100 / rows) == o.y.value:
      return r
  return None


def span_attrs(span):
  c = span.get_style(sp.StyleProperties.Color)
  colour = "white" if c is None else COLOR_OF.get(tuple(c.components), str(c.components))
  italic = span.get_style(sp.StyleProperties.FontStyle) is sp.FontStyleType.italic
  td = span.get_style(sp.StyleProperties.TextDecoration)
  ul = bool(td is not None and td.underline)
  return colour, italic, ul


def paragraphs(doc):
  out = []
  body = doc.get_body()
  if body is None:
    return out
  for div in body:
    for p in div:
      if isinstance(p, m.P):
        out.append(p)
  return out


def p_rows(p, t):
  """rows of a paragraph at absolute time t: list of (relative row, [(char, colour, italic, underline)])."""
  rows = []
  cur = []
  rel = 0
  pb = p.get_begin() or 0
  for c in p:
    if isinstance(c, m.Br):
      rows.append((rel, cur))
      cur = []
      rel += 1
      continue
    if not isinstance(c, m.Span):
      continue
    if c.get_begin() is not None and pb + c.get_begin() > t:
      continue
    if c.get_end() is not None and pb + c.get_end() <= t:
      continue
    a = span_attrs(c)
    for tn in c:
      if isinstance(tn, m.Text):
        for ch in tn.get_text():
          cur.append((ch, a[0], a[1], a[2]))
  rows.append((rel, cur))
  return rows


def norm_cells(cells):
  cells = [(" ", None, None, None) if c[0] == " " else c for c in cells]
  while cells and cells[0][0] == " ":
    cells.pop(0)
  while cells and cells[-1][0] == " ":
    cells.pop()
  res = []
  for c in cells:
    if c[0] == " " and res and res[-1][0] == " ":
      continue
    res.append(tuple(c))
  return res


def sut_display(doc, t, rollup=False):
  """[(absolute row, cells)] shown by the document at time t. Paragraphs in a bottom-aligned (roll-up)
  region end on row 15; the others start on the row their region origin encodes."""
  out = []
  for p in paragraphs(doc):
    b, e = p.get_begin() or 0, p.get_end()
    if not (b <= t and (e is None or t < e)):
      continue
    all_rows = p_rows(p, t)
    rows = [(rel, norm_cells(cells)) for rel, cells in all_rows]
    rows = [(rel, cells) for rel, cells in rows if cells]
    if not rows:
      continue
    region = p.get_region()
    bottom_aligned = region is not None and region.get_style(sp.StyleProperties.DisplayAlign) is sp.DisplayAlignType.after
    if bottom_aligned:
      maxrel = max(rel for rel, _c in all_rows)
      for rel, cells in rows:
        out.append((15 - (maxrel - rel), cells))
    else:
      # the region origin is the top-most row of the paragraph; every br moves one row down
      top = top_row_of(region, doc) if region is not None else None
      for rel, cells in rows:
        out.append((None if top is None else top + rel, cells))
  return out


# ------------------------------------------------------------------ one run

def simulate(script, chan, knobs, seed_label):
  chan = dict(chan, rng=core.rng_for("C08-chan", seed_label))
  text, raw, lines = enc.transmit(script, chan, knobs["start"], knobs["df"])
  dec = ref608.Screen608(enc.EXT)
  roll_at = []  # (frame, mode) to know which comparison applies
  for w in raw:
    dec.feed(w["w"], w["frame"])
    roll_at.append((w["frame"], dec.mode))
  return text, raw, lines, dec, roll_at


def windows_of(dec):
  """merge display-change events into transmission windows [(first, last, state after)]"""
  wins = []
  for ev, st, ru, base in zip(dec.events, dec.states, dec.states_reused, dec.states_base):
    if wins and ev["first"] - wins[-1][1] < MERGE_GAP:
      wins[-1][1] = ev["last"]
      wins[-1][2] = st
      wins[-1][3].append(ev["kind"])
      wins[-1][5] = ru
      wins[-1][6] = base
    else:
      wins.append([ev["first"], ev["last"], st, [ev["kind"]], None, ru, base])
  return wins



def line_of_frame(lines, f):
  """label of the SCC line that is being transmitted at frame f (last line whose label <= f)."""
  best = None
  for label, ws in lines:
    if label <= f:
      best = (label, len(ws))
  return best


def check_run(knobs, script, stats, log, seed_label):
  df = knobs["df"]
  text, raw, lines, dec, roll_at = simulate(script, knobs["chan"], knobs, seed_label)
  cfg = None if knobs["text_align"] is None else SccReaderConfiguration.parse({"text_align": knobs["text_align"]})
  try:
    doc = scc_reader.to_model(text, cfg)
  except core.RunTimeout:
    raise
  except Exception as e:
    raise core.Violation("reader-raised:%s@%s" % (type(e).__name__, core.innermost_ttconv_frame(e)), "%s: %s\n%s" % (type(e).__name__, e, text[:1500]))
  if doc is None:
    raise core.Violation("reader-returned-none", text[:1500])
  wins = windows_of(dec)
  stats.count("sim.frames_simulated", (raw[-1]["frame"] - knobs["start"] + 1) if raw else 0)
  stats.count("sim.words_transmitted", len(raw))
  stats.count("fault.duplicate_code.fired", len(dec.suppressed))
  stats.count("fault.null_padding.fired", sum(1 for w in raw if w["ch"] == 0))
  stats.count("fault.channel2_word.fired", sum(1 for w in raw if w["ch"] == 2))
  stats.count("fault.parity_cleared_run.fired", 1 if knobs["chan"]["parity_off"] > 0 else 0)
  for k, v in dec.probes.items():
    stats.count("probe." + k, v)
  stats.count("sim.display_change_windows", len(wins))
  for w in wins:
    stats.seen("ref_state", [(r, "".join(c[0] for c in cells)) for r, cells in ref608.render(w[2])], w[3][:3])

  def mode_at(f):
    md = None
    for fr, mo in roll_at:
      if fr > f:
        break
      md = mo
    return md

  # ---- change times
  sup = sorted(dec.suppressed)
  line_starts = [l[0] for l in lines]

  def lower_of(first):
    """earliest time the reader's own clock (which counts a doubled code once) can give to the word sent at `first`"""
    lab = max((ls for ls in line_starts if ls <= first), default=first)
    return first - sum(1 for s in sup if lab <= s < first)

  for w in wins:
    w[4] = lower_of(w[0])

  def allowed(f):
    """is frame f inside the window of some display change?  window = [first - dups before it in its line, last + 2]"""
    for _first, last, _st, _k, lower, _ru, _base in wins:
      if lower <= f <= last + 2:
        return True
    return False

  times = []
  for p in paragraphs(doc):
    pb = p.get_begin() or 0
    times.append(("p.begin", pb, p.get_id()))
    if p.get_end() is not None:
      times.append(("p.end", p.get_end(), p.get_id()))
    for c in p:
      if isinstance(c, m.Span) and c.get_begin() is not None:
        times.append(("span.begin", pb + c.get_begin(), p.get_id()))
  for what, t, pid in times:
    f = frame_of(t, df)
    if f is None:
      raise core.Violation("time-not-a-frame-multiple:" + what, "%s=%s of %s is not a multiple of one frame (%s)\n%s" % (what, t, pid, "DF" if df else "NDF", text[:1200]))
    li = line_of_frame(lines, f)
    if li is None:
      raise core.Violation("time-before-first-line:" + what, "%s=%s (frame %d) of %s precedes the first line label %d\n%s" % (what, t, f, pid, lines[0][0] if lines else -1, text[:1200]))
    if not allowed(f):
      raise core.Violation("change-outside-transmission-window:" + what,
                           "%s=%s (frame %d) of %s is not within the window of any display change; windows=%s\n%s" % (what, t, f, pid, [(w[0], w[1], w[3][:2]) for w in wins][:30], text[:1500]))
  # ---- quiescent frames
  unit = Fraction(1001, 30000) if df else Fraction(1, 30)
  soft = []
  seq = []
  prev_last = None
  for i, w in enumerate(wins + [None]):
    # interval between window i-1 and window i
    if i == 0:
      lo, hi = knobs["start"] - 20, (w[4] - 1 if w else knobs["start"])
      state = {}
    else:
      lo = prev_last + 3
      hi = (w[4] - 1) if w is not None else prev_last + 40
      state = wins[i - 1][2]
    reused = [] if i == 0 else wins[i - 1][5]
    base608 = 15 if i == 0 else wins[i - 1][6]
    if w is not None:
      prev_last = w[1]
    if hi - lo < 1:
      continue
    fmid = (lo + hi) // 2
    t = fmid * unit
    md = mode_at(fmid)
    rollup = md == "roll"
    expected = ref608.render(state)
    got = sut_display(doc, t)
    stats.count("sim.quiescent_points_compared")
    exp_cmp = [(r, cells) for r, cells in expected]
    g = sorted([(r, cells) for r, cells in got], key=lambda x: (x[0] is None, x[0]))
    if rollup and len(g) > max(dec.depth, 1) and len(g) > len(exp_cmp):
      raise core.Violation("rollup-shows-more-rows-than-depth", "frame %d: %d rows shown\n%s" % (fmid, len(g), text[:1500]))
    if rollup and w is not None and [c for _r, c in g] != [c for _r, c in exp_cmp]:
      # does the reader show the row as it will be once its transmission is complete? (it creates one paragraph per
      # roll-up state at the carriage return, so text that trickles in after a pause is displayed early)
      j, final = i, None
      while j < len(wins) and set(wins[j][3]) <= ROW_CONTINUES:
        final = wins[j][2]
        j += 1
      if final is not None and [c for _r, c in g] == [c for _r, c in ref608.render(final)]:
        stats.count("probe.rollup_row_shown_before_received")
        v = core.Violation("display-differs:roll:row-shown-before-received",
                           "frame %d (t=%s): reader shows %s\nreference shows %s until the rest of the row has been received\n%s" % (fmid, t, _show(g), _show(exp_cmp), text[:2500]))
        if v.signature not in [x.signature for x in soft]:
          soft.append(v)
        continue
    if [c for _r, c in g] != [c for _r, c in exp_cmp]:
      kind = "characters" if ["".join(x[0] for x in c) for _r, c in g] != ["".join(x[0] for x in c) for _r, c in exp_cmp] else "attributes"
      if reused:
        # only rows that were written over earlier content (no ENM in between) differ?
        gd, ed = dict((r, c) for r, c in g), dict((r, c) for r, c in exp_cmp)
        if all(gd.get(r) == ed.get(r) for r in set(gd) | set(ed) if r not in reused):
          kind += ":overwritten-row"
      v = core.Violation("display-differs:%s:%s" % (md or "none", kind),
                         "frame %d (t=%s): reader shows %s\nreference shows %s\n%s" % (fmid, t, _show(g), _show(exp_cmp), text[:2500]))
      if ":overwritten-row" in kind:
        # a separately classified defect class: note it and keep comparing the rest of the run
        if v.signature not in [x.signature for x in soft]:
          soft.append(v)
        continue
      raise v
    if [r for r, _c in g] != [r for r, _c in exp_cmp]:
      raise core.Violation("display-differs:%s:rows" % (md or "none"),
                           "frame %d (t=%s): reader rows %s, reference rows %s\nreader %s\n%s" % (fmid, t, [r for r, _ in g], [r for r, _ in exp_cmp], _show(g), text[:2500]))
    if rollup and base608 != 15 and exp_cmp:
      # the display equals the reference anchored at row 15, but a 608 decoder shows this window with its base on the PAC's row
      stats.count("probe.rollup_base_row_not_15")
      v = core.Violation("display-differs:roll:rows:base-row-forced-to-15",
                         "frame %d (t=%s): reader rows %s; a 608 decoder shows the window with base row %d\n%s" % (fmid, t, [r for r, _ in g], base608, text[:1500]))
      if v.signature not in [x.signature for x in soft]:
        soft.append(v)
    seq.append(core.small_hash(_show(exp_cmp)))
  log.add("display-seq", len(wins), seq[:50])
  states = []
  for st in dec.states:
    h = core.small_hash(_show(ref608.render(st)))
    if not states or states[-1] != h:
      states.append(h)
  return states, text, soft


def _show(rows):
  out = []
  for r, cells in rows:
    s = ""
    for ch, col, it, ul in cells:
      s += ch
    attrs = sorted(set((col, it, ul) for ch, col, it, ul in cells if ch != " "), key=str)
    out.append("%s:%r%s" % (r, s, "" if attrs == [("white", False, False)] else " " + str([(s_, [a for a in (c or "", "i" if i else "", "u" if u else "") if a]) for s_, (c, i, u) in _runs(cells)])))
  return "[" + "; ".join(out) + "]"


def _runs(cells):
  runs = []
  for ch, col, it, ul in cells:
    if ch == " ":
      if runs:
        runs[-1][0] += ch
      continue
    if runs and runs[-1][1] == (col, it, ul):
      runs[-1][0] += ch
    else:
      runs.append([ch, (col, it, ul)])
  return [(s.strip(), a) for s, a in runs]


def run_one(rng, case, stats, rec, log, ctx=None):
  if case is None:
    knobs = gen_knobs(rng)
    script = enc.gen_script(rng, knobs)
  else:
    knobs = case["knobs"]
    script = case["ops"]
  rec.set_knobs(knobs)
  for u in script:
    rec.op(u)
  if case is None and not valid_script(script):
    raise core.HarnessError("generator produced a script outside the protocol grammars: %s" % script)
  label = core.canon([knobs["start"], knobs["df"], len(script)])
  stats.count("style." + "+".join(knobs["styles"]))
  stats.count("clock." + ("DF" if knobs["df"] else "NDF"))
  seq1, text, soft1 = check_run(knobs, script, stats, log, label)
  # transparency of benign channel faults: same script, other channel configuration
  k2 = dict(knobs, chan=knobs["chan2"])
  seq2, _, soft2 = check_run(k2, script, stats, log, label + "b")
  if seq1 != seq2:
    raise core.HarnessError("the reference display sequence depends on the channel configuration")
  log.add("done", len(script))
  soft = []
  for v in soft1 + soft2:
    if v.signature not in [x.signature for x in soft]:
      soft.append(v)
  if soft:
    for v in soft[1:]:
      rec.extra.append((v.signature, v.detail, rec.case()))
    raise soft[0]


def valid_script(ops, allow_unclean=True):
  """Does the script follow the protocol grammars the statement quantifies over (and the scope
  guards of DESIGN.md)? Used to keep minimisation inside the property's domain and to guard the
  generator itself."""
  mode = None
  have_pos = False
  colour = 0
  dirty_disp = dirty_nond = False
  prev_mid = False
  for u in ops:
    k = u[0]
    if k == "gap":
      if mode in ("roll", "paint"):
        # after idle time a row continues with a new word (text with a leading space) or starts again with a PAC
        have_pos = "after-gap" if have_pos else False
      continue
    if k == "cut":
      continue
    is_mid = k == "mid"
    if k == "ctl":
      n = u[1]
      if n in ("RCL", "RDC", "RU2", "RU3", "RU4"):
        new = {"RCL": "pop", "RDC": "paint"}.get(n, "roll")
        if mode is not None and new != mode and (dirty_disp or dirty_nond) and ("roll" in (new, mode) or not allow_unclean):
          return False
        mode = new
        have_pos = False
      elif n == "CR":
        if mode != "roll":
          return False
        have_pos = True  # column 1 of the base row
      elif n == "EOC":
        if mode != "pop":
          return False
        dirty_disp, dirty_nond = dirty_nond, dirty_disp
        have_pos = False
      elif n == "EDM":
        dirty_disp = False
      elif n == "ENM":
        dirty_nond = False
      elif n in ("TO1", "TO2", "TO3", "BS"):
        if mode is None or not have_pos:
          return False
    elif k == "pac":
      if mode is None:
        return False
      have_pos = True
      colour = u[3] if u[2] == "color" else 0
    else:
      if mode is None or not have_pos:
        return False
      if have_pos == "after-gap":
        if not (k == "txt" and u[1].startswith(" ")):
          return False
        have_pos = True
      if is_mid:
        if u[1] >= 0:
          colour = u[1]
      if mode == "pop":
        dirty_nond = True
      else:
        dirty_disp = True
    prev_mid = is_mid
  return True


def shrink(case, is_bad, deadline):
  knobs = dict(case["knobs"])
  _raw_is_bad = is_bad
  is_bad = lambda c: valid_script(c["ops"]) and _raw_is_bad(c)  # noqa: E731
  ops = shr.ddmin(case["ops"], lambda o: is_bad({"knobs": knobs, "ops": o}), deadline)
  for simpler in ({"chan": dict(knobs["chan"], null=0.0, ch2=0.0, parity_off=0.0), "chan2": dict(knobs["chan2"], null=0.0, ch2=0.0, parity_off=0.0)},
                  {"start": 0}, {"df": False}, {"text_align": None},
                  {"chan": dict(knobs["chan"], line_len=1000)}, {"chan2": dict(knobs["chan"])}):
    k2 = dict(knobs)
    k2.update(simpler)
    if is_bad({"knobs": k2, "ops": ops}):
      knobs = k2

  def simpler_unit(u):
    if u[0] == "txt" and len(u[1]) > 1:
      yield ["txt", u[1][: max(1, len(u[1]) // 2)]]
      yield ["txt", u[1][:1]]
    if u[0] == "gap" and u[1] > 20:
      yield ["gap", 20]
    if u[0] == "pac" and u[4]:
      yield [u[0], u[1], u[2], u[3], False]
  ops = shr.shrink_each(ops, simpler_unit, lambda o: is_bad({"knobs": knobs, "ops": o}), deadline)
  ops = shr.ddmin(ops, lambda o: is_bad({"knobs": knobs, "ops": o}), deadline)
  return {"knobs": knobs, "ops": ops}


def sample_of(case):
  return {"styles": case["knobs"]["styles"], "df": case["knobs"]["df"], "start_frame": case["knobs"]["start"], "channel": case["knobs"]["chan"], "script": case["ops"][:40]}


def describe():
  return {
    "rule": ("one evaluation = one seeded caption script (1-12 captions of pop-on: RCL [ENM] (PAC [TOx] text/mid-row{1,2}/special/extended/BS/TOx){1-4 rows} "
             "[EDM] EOC; roll-up: RU2-4 (CR [PAC] text)*; paint-on: RDC (PAC text)*; mode switches clean, or between pop-on and paint-on with a caption on screen) sent twice through a simulated line-21 "
             "channel with two seeded configurations (codes once/twice, null padding, channel-2 bursts, parity cleared, line length 6-1000 words, "
             "NDF or DF labels starting at seeded frames incl. minute / ten-minute / hour boundaries, idle gaps) and read by scc_reader.to_model with a "
             "seeded text_align; compared with the reference 608 decoder at the middle of every quiescent interval and on every emitted begin/end. "
             "distinct_nontrivial = distinct (rendered reference display state, kinds of the change) pairs reached."),
    "fault_note": "channel perturbations of the word stream: redundant copies of codes, null padding words, channel-2 words, runs with parity bits cleared; line re-segmentation and clock jumps are part of every run's knobs",
    "nontrivial_measure": "ref_state",
    "components": {"real": ["ttconv/scc/* (reader, line, context, caption_paragraph/line/text, word, codes)", "ttconv/time_code.py", "ttconv/model.py"],
                   "stub": [], "simulated": ["caption encoder with the frame clock (sim/producers/scc608.py)", "line-21 channel perturbations"],
                   "reference": ["sim/ref/screen608.py (two memories, three modes, roll-up window, cursor, pen)", "40-line evaluator of the flat p/span/br documents the reader emits"]},
    "simulated_time_fn": lambda agg: "%d frames (%.1f h of caption time at 30 fps) in %d transmitted words" % (
      agg.counts.get("sim.frames_simulated", 0), agg.counts.get("sim.frames_simulated", 0) / 108000.0, agg.counts.get("sim.words_transmitted", 0)),
    "assumptions": [
      "scripts follow the three protocols on channel 1; style changes to and from roll-up are clean (EDM+ENM and idle time first); in the direct modes idle time inside a row is followed by a new word (leading space) or a PAC",
      "display is compared at quiescent frames only (>= 3 frames away from any display change of the reference); inside transmission windows only the change times are judged",
      "row ends are stripped and runs of blanks collapsed; in roll-up the display is compared anchored at base row 15 on both sides (the reader forces it); the reference also tracks the base row a 608 decoder would use, and every roll-up display whose base row is not 15 is reported under the open known finding base-row-forced-to-15",
      "characters whose Unicode identity is debatable are not generated (C17 territory); background attribute codes, flash, DER and the text-mode codes are outside the statement and not generated",
      "rows that are re-addressed while they hold content are compared too, but their mismatches are classified separately (open known findings)",
    ],
  }
