"""C19 - `tt convert` equals the library pipeline, honours options, is deterministic.

Simulation: the *node* is one interpreter that has imported ttconv.tt; *disk* is an in-memory
file system behind builtins.open/io.open (sim/simfs.py); a seeded *history* of 3-12 command
lines (conversions between all format pairs with seeded options and configurations, mixed with
usage faults: unsupported types, unknown sub-commands, documented-invalid configuration values)
is executed by the real `ttconv.tt.main` inside ONE process forked from a pristine template.
The reference for every command is my own composition of reader -> filters -> writer
(sim/ref/pipeline.py) computed in its own fork of the same pristine template, so any influence
of earlier commands on later output bytes is a mismatch. The history is also run in reversed
order (another fork), and, for one history in eight, in fresh interpreters under three other
hash seeds ("restart").
"""
import base64
import hashlib
import io
import json
import os
import subprocess
import sys

from sim import core, shrink as shr
from sim.simfs import SimFS
from sim.ref import pipeline
from sim.producers import text as ptext, stl as pstl, ttml as pttml, scc608 as pscc

core.ensure_repo_on_path()

import ttconv.tt as tt  # noqa: E402  (the template state: imported, nothing converted yet)

# A simulated third-party document filter (the registry in DocumentFilter.__init_subclass__ is part of the CLI's
# contract): it is not idempotent and does not commute with lcd, so the order and multiplicity of --filter matter.
import dataclasses  # noqa: E402
import ttconv.model as _model  # noqa: E402
from ttconv.config import ModuleConfiguration as _ModuleConfiguration  # noqa: E402
from ttconv.filters.document_filter import DocumentFilter as _DocumentFilter  # noqa: E402
import ttconv.style_properties as _styles  # noqa: E402


@dataclasses.dataclass
class _ProbeConfig(_ModuleConfiguration):
  tag: str = "probe"

  @classmethod
  def name(cls):
    return "probe"


class _ProbeFilter(_DocumentFilter):
  """Appends a marker span to every paragraph and paints it (lcd removes the colour again)."""

  @classmethod
  def get_config_class(cls):
    return _ProbeConfig

  def process(self, doc):
    body = doc.get_body()
    if body is None:
      return doc
    for e in list(body.dfs_iterator()):
      if isinstance(e, _model.P):
        span = _model.Span(doc)
        span.push_child(_model.Text(doc, "[" + self.config.tag + "]"))
        span.set_style(_styles.StyleProperties.FontStyle, _styles.FontStyleType.italic)
        e.push_child(span)
    return doc


ID = "C19"
LEVEL = "exploration"
SOFT_TIMEOUT = 120
REPLAY_ISOLATED = False  # run_one itself isolates every history in a fork
TIERS = {
  "quick": {"runs": 640, "hard_timeout": 200, "shrink_budget": 40, "shrink_total": 240, "det_sample": 16, "confirm_timeout": 200},
  "thorough": {"runs": 40000, "hard_timeout": 240, "shrink_budget": 150, "shrink_total": 900, "det_sample": 64, "confirm_timeout": 240},
}
RESTART_EVERY = 8
HASHSEEDS = ["0", "1", "31337"]

PRODUCERS = {"srt": ptext.srt, "vtt": ptext.vtt, "scc": pscc.scc_mixed, "stl": pstl.stl, "ttml": pttml.ttml}
IN_FORMATS = ["ttml", "scc", "stl", "srt", "vtt"]
OUT_FORMATS = ["ttml", "srt", "vtt"]

VALID = {
  "general": [{"progress_bar": False, "log_level": "WARN"}, {"log_level": "ERROR"}, {"document_lang": "es-419"}, {"progress_bar": True},
              {"progress_bar": False, "document_lang": "fr"}, {"log_level": "INFO"}],
  "imsc_writer": [{}, {"time_format": "clock_time"}, {"time_format": "frames", "fps": "25/1"}, {"time_format": "frames", "fps": "30000/1001"},
                  {"time_format": "clock_time_with_frames", "fps": "30/1"}, {"fps": "24/1"}, {"time_format": "clock_time", "fps": "25/1"}],
  "stl_reader": [{}, {"disable_fill_line_gap": True}, {"disable_line_padding": True}, {"program_start_tc": "TCP"}, {"program_start_tc": "10:00:00:00"},
                 {"font_stack": "Arial, sansSerif"}, {"max_row_count": "MNR"}, {"max_row_count": 11}, {"disable_fill_line_gap": False, "disable_line_padding": False}],
  "srt_writer": [{"text_formatting": True}, {"text_formatting": False}, {}],
  "vtt_writer": [{}, {"line_position": True}, {"text_align": True}, {"cue_id": False}, {"line_position": True, "text_align": True, "cue_id": True},
                 {"line_position": False, "text_align": False, "cue_id": False}],
  "scc_reader": [{"text_align": "auto"}, {"text_align": "left"}, {"text_align": "center"}, {"text_align": "right"}, {}],
  "lcd": [{}, {"safe_area": 0}, {"safe_area": 30}, {"safe_area": 5, "preserve_text_align": True}, {"color": "#ff0000"}, {"bg_color": "blue"},
          {"color": "white", "bg_color": "#00000080", "preserve_text_align": False}, {"safe_area": 10}],
}
INVALID = {
  "general": [{"log_level": "LOUD"}, {"progress_bar": "false"}, {"progress_bar": "no"}, {"progress_bar": 0}],
  "imsc_writer": [{"time_format": "smpte"}, {"time_format": "FRAMES", "fps": "25/1"}, {"fps": "25"}, {"fps": "a/b"}, {"fps": "25/0"}, {"fps": 25},
                  {"time_format": "frames"}, {"time_format": "clock_time_with_frames"}, {"time_format": "clock_time_with_frames", "fps": "30000/1001"}],
  "stl_reader": [{"program_start_tc": "xyz"}, {"max_row_count": "abc"}, {"max_row_count": 11.5}, {"disable_fill_line_gap": "false"}, {"disable_line_padding": "no"}, {"disable_fill_line_gap": 1}, {"disable_line_padding": 0}],
  "srt_writer": [{"text_formatting": "false"}, {"text_formatting": "no"}, {"text_formatting": 1}, {"text_formatting": 0}],
  "vtt_writer": [{"cue_id": "false"}, {"line_position": "no"}, {"text_align": "false"}, {"cue_id": 1}, {"line_position": 0}, {"text_align": 1}],
  "scc_reader": [{"text_align": "justify"}, {"text_align": ""}],
  "lcd": [{"safe_area": -1}, {"safe_area": 31}, {"safe_area": 99}, {"color": "notacolor"}, {"bg_color": 5}, {"preserve_text_align": "false"}, {"preserve_text_align": 1}],
}


def invalid_reason(cfg, spec):
  used = pipeline.used_modules(spec)
  why = pipeline.documented_invalid(cfg, used)
  if why is not None:
    return why
  if cfg and "imsc_writer" in used and isinstance(cfg.get("imsc_writer"), dict):
    c = cfg["imsc_writer"]
    tf, fps = c.get("time_format"), c.get("fps")
    if tf in ("frames", "clock_time_with_frames") and fps is None:
      return "imsc_writer.time_format=%s without fps" % tf
    if tf == "clock_time_with_frames" and isinstance(fps, str) and "/" in fps and fps.split("/")[1] not in ("1",):
      return "imsc_writer.clock_time_with_frames with non-integer fps"
  return None


_CORPUS = None


def corpus():
  global _CORPUS
  if _CORPUS is None:
    import glob
    root = os.path.join(core.repo_root(), "src", "test", "resources")
    out = {f: [] for f in IN_FORMATS}
    for ext, fmt in ((".scc", "scc"), (".stl", "stl"), (".ttml", "ttml"), (".vtt", "vtt")):
      for p in sorted(glob.glob(os.path.join(root, "**", "*" + ext), recursive=True)):
        try:
          if os.path.getsize(p) <= 6000:
            out[fmt].append(p)
        except OSError:
          pass
    _CORPUS = out
  return _CORPUS


def _case_mix(rng, s):
  return rng.choice([s, s.upper(), s.capitalize(), "".join(c.upper() if rng.random() < 0.5 else c for c in s)])


def gen_config(rng, spec_modules, stats):
  """module -> dict; about one config in six carries one documented-invalid value."""
  if rng.random() < 0.3:
    return None
  cfg = {}
  mods = [mm for mm in sorted(VALID) if rng.random() < (0.6 if mm in spec_modules else 0.15)]
  for mm in mods:
    cfg[mm] = dict(rng.choice(VALID[mm]))
    if rng.random() < 0.2:
      # an explicit JSON null next to the other keys (never judged by itself; the output must still equal the pipeline's)
      keys = sorted(k for (m_, k) in pipeline.DOCUMENTED if m_ == mm and k not in cfg[mm])
      if keys:
        cfg[mm][rng.choice(keys)] = None
        if mm == "general" and "document_lang" not in cfg[mm] and rng.random() < 0.7:
          cfg[mm]["document_lang"] = rng.choice(["fr-CA", "ja", "es-419"])
  if cfg and rng.random() < 0.17:
    mm = rng.choice(sorted(cfg))
    cfg[mm] = dict(rng.choice(INVALID[mm]))
  return cfg


def gen_op(rng, k, stats):
  r = rng.random()
  if r < 0.06:
    return {"kind": "bad", "argv": [rng.choice(["bogus", "validate", "Convert", "conver"]), "-i", "/simfs/in/a.ttml", "-o", "/simfs/out/bad%d.ttml" % k],
            "out": "/simfs/out/bad%d.ttml" % k, "expect": "usage-error", "focus": ["unknown-subcommand"]}
  fmt = rng.choice(IN_FORMATS)
  files = corpus()[fmt]
  if files and rng.random() < 0.3:
    with open(rng.choice(files), "rb") as f:
      data = f.read()
  else:
    data = b""
    for _ in range(8):
      data = PRODUCERS[fmt](rng)
      if len(data) <= 4000:
        break
  ofmt = rng.choice(OUT_FORMATS)
  spec = {"kind": "convert", "data": base64.b64encode(data).decode("ascii"), "filters": rng.choice([[], [], ["lcd"], ["lcd"], ["lcd", "lcd"], ["nope"], ["nope", "lcd"], ["probe"], ["probe", "probe"],
                                                                                                           ["lcd", "probe", "lcd"], ["probe", "lcd"], ["lcd", "probe"], ["probe", "nope", "probe"]])}
  focus = []
  # input type
  mode = rng.choice(["ext", "ext", "itype", "itype-misleading-ext", "bad-ext", "bad-itype"])
  if mode == "ext":
    spec["in"] = "/simfs/in/f%d.%s" % (k, _case_mix(rng, fmt))
    spec["itype"] = None
    focus.append("ext-case" if spec["in"].rsplit(".", 1)[1] != fmt else "ext")
  elif mode == "itype":
    spec["in"] = "/simfs/in/f%d.%s" % (k, rng.choice(["dat", "bin", fmt]))
    spec["itype"] = _case_mix(rng, fmt)
    focus.append("itype")
  elif mode == "itype-misleading-ext":
    other = rng.choice([x for x in IN_FORMATS if x != fmt])
    spec["in"] = "/simfs/in/f%d.%s" % (k, other)
    spec["itype"] = _case_mix(rng, fmt)
    focus.append("itype-beats-extension")
  elif mode == "bad-ext":
    spec["in"] = "/simfs/in/f%d.%s" % (k, rng.choice(["txt", "xml", "", "sccx", "tt ml"]))
    spec["itype"] = None
    focus.append("unsupported-input-extension")
  else:
    spec["in"] = "/simfs/in/f%d.%s" % (k, fmt)
    spec["itype"] = rng.choice(["doc", "cap", "", "ttml2", "s c c"])
    focus.append("unsupported-itype")
  omode = rng.choice(["ext", "ext", "otype", "otype-misleading-ext", "bad"]) if rng.random() < 0.85 else "bad"
  if omode == "ext":
    spec["out"] = "/simfs/out/o%d.%s" % (k, _case_mix(rng, ofmt))
    spec["otype"] = None
  elif omode == "otype":
    spec["out"] = "/simfs/out/o%d.%s" % (k, rng.choice(["out", "dat", ofmt]))
    spec["otype"] = _case_mix(rng, ofmt)
  elif omode == "otype-misleading-ext":
    other = rng.choice([x for x in OUT_FORMATS if x != ofmt])
    spec["out"] = "/simfs/out/o%d.%s" % (k, other)
    spec["otype"] = _case_mix(rng, ofmt)
    focus.append("otype-beats-extension")
  else:
    if rng.random() < 0.5:
      spec["out"] = "/simfs/out/o%d.%s" % (k, rng.choice(["scc", "stl", "pdf", "txt", ""]))
      spec["otype"] = None
    else:
      spec["out"] = "/simfs/out/o%d.%s" % (k, ofmt)
      spec["otype"] = rng.choice(["scc", "stl", "pdf", "", "imsc"])
    focus.append("unsupported-output-type")
  rt = pipeline.file_type(spec["itype"], spec["in"])
  wt = pipeline.file_type(spec["otype"], spec["out"])
  usage_ok = rt in pipeline.READ_TYPES and wt in pipeline.WRITE_TYPES
  mods = pipeline.used_modules(spec) if usage_ok else {"general"}
  # configuration: inline, file, or both with different contents (the file must win)
  cm = rng.choice(["none", "inline", "inline", "file", "both", "both"])
  spec["config"] = gen_config(rng, mods, stats) if cm in ("inline", "both") else None
  spec["config_file"] = gen_config(rng, mods, stats) if cm in ("file", "both") else None
  if cm == "both" and spec["config"] is not None and spec["config_file"] is not None:
    focus.append("file-beats-inline")
  eff = pipeline.effective_config(spec)
  if eff and isinstance(eff.get("general"), dict) and eff["general"].get("document_lang") is not None:
    focus.append("document_lang")
  if spec["filters"]:
    focus.append("filters")
  if not usage_ok:
    spec["expect"] = "usage-error"
  else:
    why = invalid_reason(eff, spec)
    if why is not None:
      spec["expect"] = "invalid-config"
      spec["why"] = why
      focus.append("invalid:" + why.split("=")[0])
    else:
      spec["expect"] = "pipeline"
  spec["focus"] = focus
  return spec


def build_argv(op):
  if op["kind"] == "bad":
    return list(op["argv"])
  argv = ["convert", "-i", op["in"], "-o", op["out"]]
  if op.get("itype") is not None:
    argv += ["--itype", op["itype"]]
  if op.get("otype") is not None:
    argv += ["--otype", op["otype"]]
  for f in op.get("filters", []):
    argv += ["--filter", f]
  if op.get("config") is not None:
    argv += ["--config", json.dumps(op["config"])]
  if op.get("config_file") is not None:
    argv += ["--config_file", "/simfs/cfg/c.json"]
  return argv


def judge(op, ref, outcome, out_bytes, stray):
  """Returns (signature, detail) or None."""
  is_err = outcome[0] != "ok"
  focus = ",".join(op.get("focus", [])) or "plain"
  if stray:
    return ("stray-file-created", "%s created besides the output file" % stray)
  if op["expect"] == "usage-error":
    if not is_err:
      return ("usage-error-accepted:" + focus, "argv=%s ended normally" % build_argv(op))
    if out_bytes is not None:
      return ("output-file-after-usage-error:" + focus, "argv=%s left %d bytes at %s" % (build_argv(op), len(out_bytes), op["out"]))
    return None
  if op["expect"] == "invalid-config":
    if not is_err:
      return ("documented-invalid-config-accepted:" + op["why"].split("=")[0], "%s accepted; argv=%s" % (op["why"], build_argv(op)))
    if out_bytes is not None:
      # "end with an error and no output file": a conversion rejected for its configuration has not produced its output
      return ("output-file-after-rejected-config", "%s rejected, but %d bytes were left at %s; argv=%s" % (op["why"], len(out_bytes), op["out"], build_argv(op)))
    return None
  if ref[0] == "ok":
    if is_err:
      return ("cli-fails-where-library-succeeds:" + outcome[1], "argv=%s -> %s" % (build_argv(op), outcome))
    if out_bytes is None:
      return ("no-output-file-after-success", "argv=%s" % build_argv(op))
    if out_bytes != ref[1]:
      return ("output-differs-from-library-pipeline",
              "argv=%s\ncli    =%r\nlibrary=%r" % (build_argv(op), out_bytes[:600], ref[1][:600]))
    return None
  if ref[0] == "error":
    if not is_err:
      return ("cli-succeeds-where-library-raises:" + ref[1], "argv=%s" % build_argv(op))
    return None
  return ("harness:unexpected-reference", str(ref))


def exec_history(ops, with_refs=True):
  """Runs inside a process that has imported ttconv.tt but converted nothing (fork of the template
  or a fresh interpreter). Returns one record per op."""
  fs = SimFS().install()
  devnull = os.open(os.devnull, os.O_WRONLY)
  os.dup2(devnull, 2)
  refs = []
  for op in ops:
    if not with_refs or op["kind"] == "bad" or op["expect"] != "pipeline":
      refs.append(None)
      continue
    data = base64.b64decode(op["data"])
    st, val = core.fork_call(lambda: pipeline.reference(op, data), 60)
    if st != "ok":
      raise core.HarnessError("reference computation failed: %s %s" % (st, val))
    refs.append(val)
  out = []
  old_out, old_err = sys.stdout, sys.stderr
  try:
    for op, ref in zip(ops, refs):
      fs.reset()
      inputs = set()
      if op["kind"] == "convert":
        fs.put(op["in"], base64.b64decode(op["data"]))
        inputs.add(op["in"])
        if op.get("config_file") is not None:
          fs.put("/simfs/cfg/c.json", json.dumps(op["config_file"]).encode("utf-8"))
          inputs.add("/simfs/cfg/c.json")
      sys.stdout, sys.stderr = io.StringIO(), io.StringIO()
      try:
        tt.main(build_argv(op))
        outcome = ("ok", "")
      except SystemExit as e:
        outcome = ("ok", "") if e.code in (0, None) else ("error", "SystemExit")
      except core.RunTimeout:
        raise
      except Exception as e:  # pylint: disable=broad-except
        outcome = ("error", type(e).__name__)
      finally:
        sys.stdout, sys.stderr = old_out, old_err
      out_bytes = fs.get(op["out"])
      stray = [p for p in fs.listing() if p not in inputs and p != op["out"]]
      v = judge(op, ref, outcome, out_bytes, stray) if with_refs else None
      out.append({"outcome": outcome[0] + (":" + outcome[1] if outcome[1] else ""),
                  "digest": None if out_bytes is None else hashlib.sha256(out_bytes).hexdigest()[:20],
                  "ref": None if ref is None else ref[0], "violation": v})
  finally:
    fs.uninstall()
  return out


def gen_knobs(rng):
  return {"nops": rng.randint(3, 12)}


def run_one(rng, case, stats, rec, log, ctx=None):
  if case is None:
    knobs = gen_knobs(rng)
    ops = [gen_op(rng, k, stats) for k in range(knobs["nops"])]
    # bias: the same command again with one configuration value replaced by an equal-but-wrongly-typed twin
    # (1 for true, 0 for false), right after the valid one was accepted
    if rng.random() < 0.3:
      cands = [o for o in ops if o["kind"] == "convert" and o["expect"] == "pipeline" and pipeline.effective_config(o)]
      if cands:
        src = rng.choice(cands)
        eff = json.loads(json.dumps(pipeline.effective_config(src)))
        used = pipeline.used_modules(src)
        keys = [(mm, kk) for mm in sorted(eff) if mm in used and isinstance(eff[mm], dict) for kk in sorted(eff[mm]) if isinstance(eff[mm][kk], bool)]
        if keys:
          mm, kk = rng.choice(keys)
          eff[mm][kk] = 1 if eff[mm][kk] else 0
          twin = dict(src, config=eff, config_file=None, out=src["out"] + "2", focus=src.get("focus", []) + ["twin-after-valid"])
          why = invalid_reason(eff, twin)
          if why is not None:
            twin["expect"], twin["why"] = "invalid-config", why
            ops.insert(ops.index(src) + 1, twin)
    # bias: a failing command right before a successful one
    if rng.random() < 0.5 and len(ops) > 2:
      bad = [o for o in ops if o["expect"] != "pipeline"]
      good = [o for o in ops if o["expect"] == "pipeline"]
      if bad and good:
        ops = []
        while bad or good:
          if bad:
            ops.append(bad.pop())
          if good:
            ops.append(good.pop())
  else:
    knobs = case["knobs"]
    ops = case["ops"]
  rec.set_knobs(knobs)
  for op in ops:
    rec.op(op)
  restart = case is not None and knobs.get("restart") or (case is None and ctx is not None and ctx["index"] % RESTART_EVERY == 0)
  if restart:
    rec.knobs = dict(knobs, restart=True)

  orders = [("forward", list(range(len(ops))))]
  if len(ops) > 1:
    orders.append(("reversed", list(reversed(range(len(ops))))))
  digests = {}
  for oname, order in orders:
    st, res = core.fork_call(lambda: exec_history([ops[i] for i in order]), SOFT_TIMEOUT)
    if st == "timeout":
      raise core.Violation("nontermination", "history did not finish within %ss (%s order)" % (SOFT_TIMEOUT, oname))
    if st != "ok":
      raise core.HarnessError("history execution failed: " + str(res)[-1500:])
    prev_kind = None
    for pos, i in enumerate(order):
      r = res[pos]
      op = ops[i]
      stats.count("op." + op["kind"] + "." + op["expect"])
      if op["expect"] != "pipeline":
        stats.count("fault.usage." + (op["focus"][0] if op["kind"] == "bad" else op["expect"]) + ".fired")
      stats.count("outcome." + r["outcome"].split(":")[0])
      if op["expect"] == "pipeline" and r["ref"] == "error":
        stats.count("skipped.library_raises_too")
      for f in op.get("focus", []):
        stats.count("probe." + f.split("=")[0].replace("invalid:", "invalid."))
      if prev_kind is not None and prev_kind != "pipeline" and op["expect"] == "pipeline":
        stats.count("probe.error_then_success")
      prev_kind = op["expect"]
      if op["kind"] == "convert":
        stats.seen("spec_class", pipeline.file_type(op.get("itype"), op["in"]), pipeline.file_type(op.get("otype"), op["out"]), op["filters"],
                   sorted((op.get("config_file") or op.get("config") or {}).keys()), op["expect"], r["outcome"].split(":")[0])
      log.add(oname, i, r["outcome"], r["digest"], r["ref"])
      if r["violation"] is not None:
        sig, detail = r["violation"]
        raise core.Violation(sig, "op #%d in %s order: %s" % (i, oname, detail))
      if oname == "forward":
        digests[i] = (r["outcome"], r["digest"])
      elif digests.get(i) != (r["outcome"], r["digest"]):
        raise core.Violation("order-dependent-output", "op #%d gives %s in forward and %s in reversed order" % (i, digests.get(i), (r["outcome"], r["digest"])))
  stats.seen("history_kinds", [o["expect"] + ":" + ",".join(o.get("focus", [])) for o in ops][:12])

  if restart:
    # "restart": fresh interpreters under other hash seeds must produce the same bytes
    scratch = "/dev/shm/ttconv-verif-c19-%d" % os.getpid()
    os.makedirs(scratch, exist_ok=True)
    path = os.path.join(scratch, "history.json")
    try:
      with open(path, "w") as f:
        json.dump(ops, f)
      for hs in HASHSEEDS:
        env = dict(os.environ, PYTHONHASHSEED=hs)
        p = subprocess.run([sys.executable, os.path.join(core.VERIF_ROOT, "run.py"), "c19", "--aux", path], env=env, stdout=subprocess.PIPE, stderr=subprocess.PIPE, text=True, timeout=SOFT_TIMEOUT)
        if p.returncode != 0:
          raise core.HarnessError("restart subprocess failed: " + p.stderr[-1500:])
        got = json.loads(p.stdout.strip().splitlines()[-1])
        stats.count("fault.restart_with_hashseed.fired")
        for i, g in enumerate(got):
          if tuple(g) != digests[i]:
            raise core.Violation("hash-seed-or-restart-dependent-output", "op #%d gives %s in this process and %s in a fresh interpreter with PYTHONHASHSEED=%s" % (i, digests[i], g, hs))
        log.add("restart", hs, "same")
    finally:
      try:
        os.remove(path)
        os.rmdir(scratch)
      except OSError:
        pass


def aux_main(path):
  with open(path) as f:
    ops = json.load(f)
  res = exec_history(ops, with_refs=False)
  print(json.dumps([[r["outcome"], r["digest"]] for r in res]))
  return 0


def shrink(case, is_bad, deadline):
  knobs = dict(case["knobs"])
  ops = shr.ddmin(case["ops"], lambda o: is_bad({"knobs": knobs, "ops": o}), deadline)

  def simpler(op):
    if op["kind"] != "convert":
      return
    for key in ("config", "config_file"):
      if op.get(key):
        yield dict(op, **{key: None})
        for mod in sorted(op[key]):
          c = dict(op[key])
          del c[mod]
          yield dict(op, **{key: c})
    if op.get("filters"):
      yield dict(op, filters=[])
      yield dict(op, filters=op["filters"][:1])
  ops = shr.shrink_each(ops, simpler, lambda o: is_bad({"knobs": knobs, "ops": o}), deadline)
  return {"knobs": knobs, "ops": ops}


def sample_of(case):
  return {"history": [{"argv": [a if len(a) < 200 else a[:200] + "..." for a in build_argv(o)], "expect": o["expect"], "focus": o.get("focus"),
                       "config_file": o.get("config_file"), "input_bytes": len(base64.b64decode(o["data"])) if o["kind"] == "convert" else 0} for o in case["ops"][:6]]}


def describe():
  return {
    "rule": ("one evaluation = one seeded history of 3-12 `tt` command lines executed by the real ttconv.tt.main in one process forked from a pristine "
             "template, on an in-memory file system; inputs come from the five producers and the bundled corpus; options: type by extension "
             "(random letter case) or --itype/--otype (also contradicting the extension), filter lists, configuration inline / file / both with "
             "different contents, module configurations drawn from README.md (valid, boundary, and - one in six - documented-invalid), plus usage "
             "faults (unsupported types, unknown sub-commands) placed next to successful conversions. Each command is judged against the library "
             "pipeline computed in its own pristine fork; the history is repeated in reversed order, and every 8th history in fresh interpreters "
             "under PYTHONHASHSEED 0, 1, 31337. distinct_nontrivial = distinct (input type, output type, filter list, configured modules, expectation, "
             "outcome) classes of executed commands."),
    "fault_note": 'usage faults (unsupported types, unknown sub-commands, documented-invalid configuration values) and process restarts under other hash seeds; disk faults are not injected because the statement defines no outcome for them',
    "nontrivial_measure": "spec_class",
    "components": {"real": ["ttconv/tt.py end to end incl. argparse", "config.py and all module configurations", "all readers, filters, writers", "xml.etree, json, pathlib (stdlib)"],
                   "stub": ["file system: sim/simfs.py behind builtins.open and io.open", "stdout/stderr"],
                   "simulated": ["user issuing command lines (seeded)", "process restarts under other hash seeds"],
                   "reference": ["sim/ref/pipeline.py: library composition + README.md table of documented configuration values"]},
    "assumptions": [
      "disk faults (ENOSPC, EIO, short writes) are not injected: the statement defines no outcome for them",
      "a configuration value is required to be rejected only if README.md unambiguously excludes it (tables in sim/ref/pipeline.py and checks/c19.py); case variants of documented keywords, floats for safe_area, undocumented logging levels and JSON null are never judged",
      "unknown filter names are skipped by the reference as they are by the CLI (the statement does not make them errors)",
      "when the library pipeline itself raises for an input, the command is only required to fail too",
    ],
  }
