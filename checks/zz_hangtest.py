"""Driver self-test only (not a property check): run index 5 blocks SIGALRM and sleeps, so the soft watchdog cannot fire and
the driver's heartbeat path (kill, confirm alone, replacement worker) is exercised. Used by tools/selftest_driver.sh."""
import signal
import time

ID = "ZZ"
LEVEL = "exploration"
SOFT_TIMEOUT = 1
TIERS = {"quick": {"runs": 40, "hard_timeout": 3, "confirm_timeout": 4, "det_sample": 0}, "thorough": {"runs": 40, "hard_timeout": 3, "confirm_timeout": 4, "det_sample": 0}}


def run_one(rng, case, stats, rec, log, ctx=None):
  rec.set_knobs({})
  rec.op(["x"])
  if case is not None or (ctx and ctx["index"] == 5):
    signal.pthread_sigmask(signal.SIG_BLOCK, {signal.SIGALRM})
    time.sleep(1000)
  stats.seen("s", rng.random())
  log.add("ok")


def describe():
  return {"rule": "driver self-test", "nontrivial_measure": "s", "components": {"real": [], "stub": [], "simulated": [], "reference": []}, "assumptions": []}
