"""C18 - readers and writers fail only in documented ways, on any input.

Simulation: a producer (simulated authoring tool or a bundled corpus file) writes a file; the
storage/channel applies a seeded fault sequence (EOF at any byte, bit flips, overwritten /
zero-filled ranges, dropped / duplicated / swapped / misdirected records, torn blocks, broken
UTF-8, boundary values); the real reader consumes it through the same kind of stream object
tt.py hands it; whatever document comes back goes through the real ISD generator, the LCD
filter and the three writers under seeded valid configurations.

Every 400 consecutive run indices contain 8 *sweep* runs that together enumerate the complete
single-fault space (every truncation offset, 4 corruptions of every byte, every record
drop / duplication / adjacent swap) of one small seeded file.
"""
import base64
import glob
import io
import logging
import os
import signal
import struct
import xml.etree.ElementTree as et
from fractions import Fraction

from sim import core, faults as flt, shrink as shr
from sim.producers import text as ptext, stl as pstl, ttml as pttml, scc608 as pscc

core.ensure_repo_on_path()

import ttconv.imsc.reader as imsc_reader  # noqa: E402
import ttconv.imsc.writer as imsc_writer  # noqa: E402
import ttconv.scc.reader as scc_reader  # noqa: E402
import ttconv.srt.reader as srt_reader  # noqa: E402
import ttconv.srt.writer as srt_writer  # noqa: E402
import ttconv.stl.reader as stl_reader  # noqa: E402
import ttconv.vtt.reader as vtt_reader  # noqa: E402
import ttconv.vtt.writer as vtt_writer  # noqa: E402
from ttconv.filters.doc.lcd import LCDDocFilter, LCDDocFilterConfig  # noqa: E402
from ttconv.imsc.config import IMSCWriterConfiguration  # noqa: E402
from ttconv.isd import ISD  # noqa: E402
from ttconv.scc.config import SccReaderConfiguration  # noqa: E402
from ttconv.srt.config import SRTWriterConfiguration  # noqa: E402
from ttconv.stl.config import STLReaderConfiguration  # noqa: E402
from ttconv.vtt.config import VTTWriterConfiguration  # noqa: E402

ID = "C18"
LEVEL = "fault_enumeration"
SOFT_TIMEOUT = 20
TIERS = {
  "quick": {"runs": 12000, "hard_timeout": 60, "confirm_timeout": 120, "shrink_budget": 25, "shrink_total": 240, "det_sample": 30},
  "thorough": {"runs": 120000, "hard_timeout": 90, "confirm_timeout": 120, "shrink_budget": 90, "shrink_total": 900, "det_sample": 120},
}
FORMATS = ["srt", "vtt", "scc", "stl", "ttml"]
SWEEP_PERIOD = 400
SWEEP_CHUNKS = 8
SWEEP_STRIDE = SWEEP_PERIOD // SWEEP_CHUNKS

ALLOWED_READER_EXC = (et.ParseError, ValueError, struct.error)  # UnicodeDecodeError is a ValueError


class _Capture(logging.Handler):
  def __init__(self):
    super().__init__(level=logging.CRITICAL)
    self.fatal = 0

  def emit(self, record):
    if record.levelno >= logging.CRITICAL:
      self.fatal += 1


_CAP = _Capture()
_LOGGER = logging.getLogger("ttconv")
_LOGGER.addHandler(_CAP)
_LOGGER.setLevel(logging.CRITICAL)
_LOGGER.propagate = False

_CORPUS = None


def corpus():
  global _CORPUS
  if _CORPUS is None:
    root = os.path.join(core.repo_root(), "src", "test", "resources")
    out = {f: [] for f in FORMATS}
    for ext, fmt in ((".scc", "scc"), (".stl", "stl"), (".ttml", "ttml"), (".vtt", "vtt"), (".srt", "srt")):
      for p in sorted(glob.glob(os.path.join(root, "**", "*" + ext), recursive=True)):
        try:
          if os.path.getsize(p) <= 24576:
            out[fmt].append(os.path.relpath(p, root))
        except OSError:
          pass
    _CORPUS = out
  return _CORPUS


def read_corpus(rel):
  with open(os.path.join(core.repo_root(), "src", "test", "resources", rel), "rb") as f:
    return f.read()


PRODUCERS = {"srt": ptext.srt, "vtt": ptext.vtt, "scc": pscc.scc_mixed, "stl": pstl.stl, "ttml": pttml.ttml}


# ------------------------------------------------------------------ configurations

IMSC_CFGS = [None, {}, {"time_format": "clock_time"}, {"time_format": "clock_time", "fps": "25/1"}, {"time_format": "frames", "fps": "25/1"},
             {"time_format": "frames", "fps": "30000/1001"}, {"time_format": "clock_time_with_frames", "fps": "30/1"},
             {"time_format": "clock_time_with_frames", "fps": "24/1"}, {"fps": "24000/1001"}, {"fps": "50/1"}]
LCD_CFGS = [{}, {"safe_area": 0}, {"safe_area": 30}, {"safe_area": 5, "preserve_text_align": True}, {"color": "#ff0000"}, {"bg_color": "blue"},
            {"safe_area": 10, "color": "white", "bg_color": "#00000080", "preserve_text_align": False}]
STL_CFGS = [None, {}, {"disable_fill_line_gap": True}, {"disable_line_padding": True}, {"program_start_tc": "TCP"}, {"program_start_tc": "00:00:00:00"},
            {"program_start_tc": "10:00:00:00"}, {"font_stack": "Arial, sansSerif"}, {"max_row_count": "MNR"}, {"max_row_count": 11}, {"max_row_count": 99},
            {"program_start_tc": "TCP", "max_row_count": "MNR", "font_stack": "monospace"}]
SCC_CFGS = [None, {}, {"text_align": "left"}, {"text_align": "center"}, {"text_align": "right"}, {"text_align": "auto"}]


def gen_cfg(rng):
  return {
    "srt": rng.choice([None, {}, {"text_formatting": True}, {"text_formatting": False}]),
    "vtt": [rng.choice([None, {}] + [{"line_position": a, "text_align": b, "cue_id": c} for a in (True, False) for b in (True, False) for c in (True, False)])
            for _ in range(2)],
    "imsc": [rng.choice(IMSC_CFGS) for _ in range(2)],
    "lcd": rng.choice(LCD_CFGS),
    "stl": rng.choice(STL_CFGS),
    "scc": rng.choice(SCC_CFGS),
  }


DEFAULT_CFG = {"srt": None, "vtt": [None, {"line_position": True, "text_align": True, "cue_id": False}], "imsc": [None], "lcd": {}, "stl": None, "scc": None}


# ------------------------------------------------------------------ the consumer (real code)

def read(fmt, data, cfg):
  """Feeds `data` to the real reader the way tt.py does. Returns the document (or None)."""
  if fmt == "ttml":
    try:
      tree = et.parse(io.BytesIO(data))
    except Exception as e:  # the XML parser (stdlib) rejected the input: not the reader
      raise _XmlRejected(type(e).__name__)
    return imsc_reader.to_model(tree)
  if fmt == "scc":
    text = io.TextIOWrapper(io.BytesIO(data), encoding="utf-8").read()  # Path.read_text()
    rc = None if cfg["scc"] is None else SccReaderConfiguration.parse(cfg["scc"])
    return scc_reader.to_model(text, rc)
  if fmt == "stl":
    rc = None if cfg["stl"] is None else STLReaderConfiguration.parse(cfg["stl"])
    return stl_reader.to_model(io.BufferedReader(io.BytesIO(data)), rc)
  if fmt == "srt":
    return srt_reader.to_model(io.TextIOWrapper(io.BytesIO(data), encoding="utf-8"))
  if fmt == "vtt":
    return vtt_reader.to_model(io.TextIOWrapper(io.BytesIO(data), encoding="utf-8"))
  raise core.HarnessError("format " + fmt)


class _XmlRejected(Exception):
  pass


def _times(sig):
  ts = list(sig)
  if len(ts) > 10:
    step = len(ts) / 10.0
    ts = [ts[int(k * step)] for k in range(10)]
  out = list(ts)
  for a, b in zip(ts[:4], ts[1:5]):
    out.append((a + b) / 2)
  out.append(Fraction(-1))
  out.append((ts[-1] if ts else Fraction(0)) + 1)
  return out


def _frame_sig(exc):
  return "%s@%s" % (type(exc).__name__, core.innermost_ttconv_frame(exc))


def consume(fmt, data, cfg, stats, log):
  """Reader + downstream. Raises core.Violation; returns an outcome label."""
  _CAP.fatal = 0
  try:
    doc = read(fmt, data, cfg)
  except _XmlRejected as e:
    stats.count("reader_outcome.%s.xml-parser-rejected" % fmt)
    stats.seen("exc_signature", fmt, "xml", str(e))
    return "xml-rejected"
  except core.RunTimeout:
    raise
  except ALLOWED_READER_EXC as e:
    stats.count("reader_outcome.%s.input-format-error" % fmt)
    stats.seen("exc_signature", fmt, _frame_sig(e))
    return "format-error:" + type(e).__name__
  except Exception as e:
    raise core.Violation("reader:%s:%s" % (fmt, _frame_sig(e)), "%s: %s" % (type(e).__name__, str(e)[:300]))
  if doc is None:
    if _CAP.fatal == 0:
      raise core.Violation("reader:%s:returned-None-without-fatal-log" % fmt, "")
    stats.count("reader_outcome.%s.none-after-fatal" % fmt)
    stats.count("probe.reader_returned_none")
    return "none+fatal"
  stats.count("reader_outcome.%s.document" % fmt)

  def stage(name, fn):
    try:
      return fn()
    except core.RunTimeout:
      raise
    except Exception as e:
      raise core.Violation("downstream:%s:%s" % (name, _frame_sig(e)), "fmt=%s %s: %s" % (fmt, type(e).__name__, str(e)[:300]))

  sig = stage("significant_times", lambda: ISD.significant_times(doc))
  ts = _times(sig)
  for t in ts:
    stage("isd", lambda: ISD.from_model(doc, t))
    stage("isd_cached", lambda: ISD.from_model(doc, t, sig))
  stage("srt_writer", lambda: srt_writer.from_model(doc, None if cfg["srt"] is None else SRTWriterConfiguration.parse(cfg["srt"])))
  for c in cfg["vtt"]:
    stage("vtt_writer", lambda: vtt_writer.from_model(doc, None if c is None else VTTWriterConfiguration.parse(c)))
  for c in cfg["imsc"]:
    def w():
      tree = imsc_writer.from_model(doc, None if c is None else IMSCWriterConfiguration.parse(c))
      tree.write(io.BytesIO(), encoding="utf-8")
    stage("imsc_writer", w)
  if cfg["lcd"] is not None:
    stage("lcd_filter", lambda: LCDDocFilter(LCDDocFilterConfig.parse(cfg["lcd"])).process(doc))
    stage("lcd+srt_writer", lambda: srt_writer.from_model(doc, None))
    stage("lcd+vtt_writer", lambda: vtt_writer.from_model(doc, None))

    def w2():
      tree = imsc_writer.from_model(doc, None)
      tree.write(io.BytesIO(), encoding="utf-8")
    stage("lcd+imsc_writer", w2)
  return "document"


# ------------------------------------------------------------------ runs

def _b64(b):
  return base64.b64encode(b).decode("ascii")


def _unb64(s):
  return base64.b64decode(s.encode("ascii"))


def pick_source(rng, small=False):
  # TTML has by far the largest vocabulary and feeds every downstream stage: it gets a double share
  fmt = rng.choice(FORMATS + ["ttml"])
  files = corpus()[fmt]
  if files and rng.random() < (0.3 if not small else 0.15):
    rel = rng.choice(files)
    data = read_corpus(rel)
    if not small or len(data) <= 2600:
      return fmt, "corpus:" + rel, data
  for _ in range(50):
    data = PRODUCERS[fmt](rng)
    if not small or (len(data) <= (2100 if fmt == "stl" else 700)):
      return fmt, "producer", data
  return fmt, "producer", data


def single_fault_space(data, fmt):
  """The complete single-fault space of a file, as a deterministic list."""
  out = []
  n = len(data)
  for k in range(n + 1):
    out.append(["eof", k])
  for pos in range(n):
    out.append(["flip", [[pos, 0]]])
    out.append(["flip", [[pos, 7]]])
    out.append(["overwrite", pos, [0x00]])
    out.append(["overwrite", pos, [0xff]])
  recs = flt.records(data, fmt)
  for i, r in enumerate(recs):
    out.append(["drop", "r", list(r), list(r)])
    out.append(["dup", "r", list(r), list(r)])
    if i + 1 < len(recs):
      out.append(["swap", "r", list(r), list(recs[i + 1])])
  return out


def run_one(rng, case, stats, rec, log, ctx=None):
  if case is not None:
    k = case["knobs"]
    fmt, data, cfg = k["fmt"], _unb64(k["data"]), k["cfg"]
    rec.set_knobs(k)
    for f in case["ops"]:
      rec.op(f)
    data2 = flt.apply_all(data, case["ops"], fmt, stats)
    out = consume(fmt, data2, cfg, stats, log)
    log.add("replay", fmt, len(data2), out)
    return

  if ctx is not None and ctx["index"] % SWEEP_STRIDE == SWEEP_STRIDE - 1:
    # sweep runs are spread evenly (every 50th index); 8 consecutive ones sweep one file
    k = ctx["index"] // SWEEP_STRIDE
    run_sweep((k // SWEEP_CHUNKS, k % SWEEP_CHUNKS, ctx["seed"]), stats, rec, log, ctx.get("beat"))
    return
  mode_draw = rng.random()

  fmt, source, data = pick_source(rng)
  cfg = gen_cfg(rng) if rng.random() < 0.8 else DEFAULT_CFG
  if mode_draw < 0.25:
    faults = []
    mode = "fault-free"
  else:
    kinds = [k for k in flt.KINDS if rng.random() < 0.6] or ["eof"]
    nf = rng.choice([1, 1, 2, 3, 6])
    donor = b""
    if "splice" in kinds:
      dfmt = fmt if rng.random() < 0.6 else rng.choice(FORMATS)
      donor = PRODUCERS[dfmt](rng)
    faults = []
    cur = data
    for _ in range(nf):
      f = flt.gen_fault(rng, cur, fmt, kinds, donor)
      faults.append(f)
      cur = flt.apply(cur, f, fmt)
    mode = "multi-fault" if nf > 1 else "one-fault"
  rec.set_knobs({"fmt": fmt, "source": source, "data": _b64(data), "cfg": cfg, "mode": mode})
  for f in faults:
    rec.op(f)
  stats.count("mode." + mode)
  stats.count("source." + source.split(":")[0] + "." + fmt)
  data2 = flt.apply_all(data, faults, fmt, stats)
  if not data2:
    stats.count("probe.empty_file")
  out = consume(fmt, data2, cfg, stats, log)
  stats.seen("case_class", fmt, sorted(set(f[0] for f in faults)), out)
  log.add(fmt, source, len(data), [f[0] for f in faults], out)


def run_sweep(sweep, stats, rec, log, beat=None):
  file_id, chunk, seed = sweep
  frng = core.rng_for(ID, "sweepfile", seed, file_id)
  fmt, source, data = pick_source(frng, small=True)
  space = single_fault_space(data, fmt)
  lo = len(space) * chunk // SWEEP_CHUNKS
  hi = len(space) * (chunk + 1) // SWEEP_CHUNKS
  base = {"fmt": fmt, "source": source, "data": _b64(data), "cfg": DEFAULT_CFG, "mode": "sweep"}
  rec.set_knobs(dict(base, sweep=[file_id, chunk, lo, hi]))
  stats.count("mode.sweep_runs")
  first = None
  seen_sigs = set()
  outcomes = {}
  for f in space[lo:hi]:
    # the soft limit and the driver's heartbeat apply to each swept case, not to the whole sweep run
    signal.setitimer(signal.ITIMER_REAL, SOFT_TIMEOUT)
    if beat is not None:
      beat()
    data2 = flt.apply(data, f, fmt)
    stats.count("fault.sweep.%s.%s" % (f[0], "fired" if data2 != data else "noop"))
    stats.count("extra_evaluations")
    try:
      out = consume(fmt, data2, DEFAULT_CFG, stats, log)
    except core.Violation as v:
      out = "VIOLATION:" + v.signature
      if v.signature not in seen_sigs:
        seen_sigs.add(v.signature)
        item = (v.signature, v.detail, {"knobs": base, "ops": [f]})
        if first is None:
          first = item
        else:
          rec.extra.append(item)
    outcomes[out] = outcomes.get(out, 0) + 1
    stats.seen("case_class", fmt, [f[0]], out)
  stats.count("sweep_cases", hi - lo)
  if chunk == SWEEP_CHUNKS - 1:
    stats.count("sweep_files_last_chunk_done")
  log.add("sweep", file_id, chunk, fmt, len(data), lo, hi, outcomes)
  if first is not None:
    rec.knobs = first[2]["knobs"]
    rec.ops = first[2]["ops"]
    raise core.Violation(first[0], first[1])




# ------------------------------------------------------------------ shrinking

def shrink(case, is_bad, deadline):
  k = dict(case["knobs"])
  k.pop("sweep", None)
  fmt = k["fmt"]
  ops = shr.ddmin(case["ops"], lambda o: is_bad({"knobs": k, "ops": o}), deadline) if len(case["ops"]) > 1 else case["ops"]
  # fold the faults into the data, then minimise the bytes themselves
  data = flt.apply_all(_unb64(k["data"]), ops, fmt)
  k2 = dict(k, data=_b64(data), cfg=k["cfg"])
  if not is_bad({"knobs": k2, "ops": []}):
    return {"knobs": k, "ops": ops}
  # simplest configuration first
  kd = dict(k2, cfg=DEFAULT_CFG)
  if is_bad({"knobs": kd, "ops": []}):
    k2 = kd
  if fmt == "stl":
    # block-granular first
    blocks = [data[:1024]] + [data[i:i + 128] for i in range(1024, len(data), 128)]
    blocks = shr.ddmin(blocks, lambda bl: is_bad({"knobs": dict(k2, data=_b64(b"".join(bl))), "ops": []}), deadline)
    data = b"".join(blocks)
  else:
    lines = data.splitlines(keepends=True)
    if len(lines) > 1:
      lines = shr.ddmin(lines, lambda ls: is_bad({"knobs": dict(k2, data=_b64(b"".join(ls))), "ops": []}), deadline)
      data = b"".join(lines)
    data = shr.ddmin_bytes(data, lambda d: is_bad({"knobs": dict(k2, data=_b64(d)), "ops": []}), deadline, max_len=6000)
  return {"knobs": dict(k2, data=_b64(data), minimised_text=data.decode("utf-8", "backslashreplace")[:2000] if fmt != "stl" else None), "ops": []}


def sample_of(case):
  k = case["knobs"]
  d = _unb64(k["data"])
  return {"format": k["fmt"], "source": k.get("source"), "mode": k.get("mode"), "pre_fault_bytes": len(d),
          "pre_fault_head": d[:160].decode("utf-8", "backslashreplace") if k["fmt"] != "stl" else d[:24].hex(),
          "faults": case["ops"][:6], "sweep": k.get("sweep")}


def describe():
  return {
    "rule": ("one simulated run = producer/corpus file (5 formats; TTML has a double share, 40 % of produced TTML documents come from a "
             "'careful authoring tool' with only well-formed values, half of the produced SCC files follow the caption protocols) -> seeded fault "
             "sequence (0 faults in 25 % of sampled runs, else 1-6 of: "
             "eof, flip, overwrite, zero, drop, dup, swap, splice, torn, badutf8, boundary, valuetok) -> real reader through a tt.py-like stream -> "
             "significant_times, ISD.from_model (uncached+cached) at <= 16 times, SRT/VTT/IMSC writers and LCD filter under seeded valid "
             "configurations. 8 of every 400 run indices are sweep runs that together enumerate the complete single-fault space of one small "
             "seeded file (every truncation offset, 4 corruptions per byte, every record drop/dup/adjacent swap); each swept fault is one "
             "evaluation. distinct_nontrivial counts distinct (format, set of fault kinds that were applied, reader/downstream outcome class) "
             "triples; fault-free runs that yield a document are included as one class per format."),
    "fault_note": "storage/channel faults on the byte stream between producer and reader; 'fired' = the bytes changed, 'noop' = the fault left them unchanged; sweep.* are the enumerated single faults",
    "nontrivial_measure": "case_class",
    "components": {"real": ["all five readers (imsc, scc, stl, srt, vtt) incl. tokenizer/datafile/tf/iso6937", "isd.py", "filters (LCD + ISD filters used by writers)", "srt/vtt/imsc writers", "model.py", "xml.etree (stdlib)"],
                   "stub": [], "simulated": ["authoring tools (producers)", "storage/channel fault injector", "stream objects (BytesIO behind TextIOWrapper/BufferedReader)"],
                   "reference": ["error-class contract of C18 + 'no exception downstream'"]},
    "assumptions": [
      "exceptions raised by xml.etree while parsing (before the IMSC reader is called) count as the input being rejected by the XML parser, whatever their type",
      "the list of input-format errors in the statement is read as exhaustive: any other exception type escaping a reader alarms, including a RuntimeError that the reader raises deliberately",
      "termination is decided by wall limits (soft 20 s per run, confirmation run alone with 120 s), not by a step counter",
      "exhaustive=false: the single-fault dimension is complete per swept file, files and multi-fault combinations are sampled",
    ],
  }
